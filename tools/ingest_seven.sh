#!/bin/sh
# ingest_six.sh Cxx  -- seventh round: confirm + store /tmp/seed7-Cxx as Cxx-M / Cxx-N, keep the notes, drop the worktree
p=$1
/verif/tools/ingest_seeded.py --letters MN /tmp/seed7-$p $p 2>&1 | grep -v WARNING
for x in M N; do [ -d /verif/seeded/$p-$x ] && cp /tmp/seed7-$p/NOTES.md /verif/seeded/$p-$x/NOTES.md; done
git -C /repo worktree remove --force /tmp/seed7-$p
