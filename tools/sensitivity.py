#!/venv/bin/python
"""Sensitivity (mutation) runs: apply a patch to a scratch copy of /repo, run checks against
the copy (VERIF_REPO), report which checks raise a VIOLATION.  Nothing here is a registered
check; scratch copies live under /tmp only while this runs.

usage: sensitivity.py [--reverse] [--tier quick] [--pytest] <patch> <Cxx> [<Cxx> ...]
"""
import argparse
import os
import shutil
import subprocess
import sys
import tempfile

HERE = os.path.dirname(os.path.dirname(os.path.abspath(__file__)))


def main():
    ap = argparse.ArgumentParser()
    ap.add_argument('--reverse', action='store_true')
    ap.add_argument('--tier', default='quick')
    ap.add_argument('--pytest', action='store_true', help='also run the pinned suite on the mutant')
    ap.add_argument('--seed', default='1')
    ap.add_argument('patch')
    ap.add_argument('props', nargs='+')
    ns = ap.parse_args()
    tmp = tempfile.mkdtemp(prefix='pbk-mut-')
    try:
        repo = os.path.join(tmp, 'repo')
        subprocess.check_call(['rsync', '-a', '--exclude', '.git', '--exclude', '__pycache__', '/repo/', repo + '/'])
        cmd = ['patch', '-p1', '-s', '-d', repo] + (['-R'] if ns.reverse else []) + ['-i', os.path.abspath(ns.patch)]
        rc = subprocess.call(cmd)
        if rc != 0:
            print('PATCH-FAILED', ns.patch)
            return 3
        env = dict(os.environ, VERIF_REPO=repo, VERIF_EVIDENCE_DIR=os.path.join(tmp, 'evidence'),
                   VERIF_REPLAY_DIR=os.path.join(tmp, 'replays'), VERIF_WORK_DIR=os.path.join(tmp, 'work'), VERIF_SEED=ns.seed,
                   PYTHONDONTWRITEBYTECODE='1')
        if ns.pytest:
            r = subprocess.run(['/venv/bin/python', '-m', 'pytest', '-q', '-x', '-p', 'no:cacheprovider'],
                               cwd=repo, env=env, stdout=subprocess.PIPE, stderr=subprocess.STDOUT)
            print('pytest on mutant: rc=%d %s' % (r.returncode, r.stdout.decode()[-200:].strip().splitlines()[-1]))
        result = {}
        for pid in ns.props:
            r = subprocess.run(['/venv/bin/python', os.path.join(HERE, 'run_check.py'), pid, '--tier', ns.tier],
                               env=env, stdout=subprocess.PIPE, stderr=subprocess.PIPE)
            out = r.stdout.decode()
            viol = [l for l in out.splitlines() if l.startswith('VIOLATION') or l.startswith('  clause')]
            result[pid] = r.returncode
            print('%s: exit=%d %s' % (pid, r.returncode, 'KILLED' if r.returncode == 1 else 'SURVIVED' if r.returncode == 0 else 'HARNESS-ERROR'))
            for l in viol[:6]:
                print('    ' + l[:300])
            if r.returncode == 2:
                print(r.stderr.decode()[-800:])
        return 0 if all(v == 1 for v in result.values()) else 1
    finally:
        shutil.rmtree(tmp, ignore_errors=True)


if __name__ == '__main__':
    sys.exit(main())
