CHECKS = {
 'C01': {'text': 'Generated search: thousands (quick) to >100k (thorough) reference-built messages over all operators, replication shapes, editions and compression, plus the sample corpus, each decoded by pybufrkit and compared value-by-value and label-by-label with an independent FM-94 reference model. Bounded random exploration, not a proof.',
         'note': 'Trusts refbufr (independent reference walker, shares only the table JSON files); float compare within 4 ulp; spec-ambiguous constructs (DESIGN 10-2) not generated.',
         'technique': 'property-based testing (Hypothesis) against an independent reference decoder; corpus differential'},

 'C19': {'text': 'Complete enumeration of width 1..64 x boundary values x bit offset 0..7 for unsigned / sign-magnitude / in-place overwrite / non-fitting values / reads past the end (about 15k cells, exhaustive for that space), plus thousands of random typed field sequences against a str-of-bits model.',
         'note': 'Model of the stream is a Python str of bits; signed widths 2..64 (a sign-magnitude field needs a magnitude bit).',
         'technique': 'exhaustive small-scope enumeration + property-based sequences (Hypothesis) against a bit-string model'},
}
NOT_YET = {}
