CHECKS = {
 'C01': {'text': 'Generated search: thousands (quick) to >100k (thorough) reference-built messages over all operators, replication shapes, editions and compression, plus the sample corpus, each decoded by pybufrkit and compared value-by-value and label-by-label with an independent FM-94 reference model. Bounded random exploration, not a proof.',
         'note': 'Trusts refbufr (independent reference walker, shares only the table JSON files); float compare within 4 ulp; spec-ambiguous constructs (DESIGN 10-2) not generated.',
         'technique': 'property-based testing (Hypothesis) against an independent reference decoder; corpus differential'},
}
NOT_YET = {}
