CHECKS = {
 'C01': {'text': 'Generated search: thousands (quick) to >100k (thorough) reference-built messages over all operators, replication shapes, editions and compression, plus the sample corpus, each decoded by pybufrkit and compared value-by-value and label-by-label with an independent FM-94 reference model. Bounded random exploration, not a proof.',
         'note': 'Trusts refbufr (independent reference walker, shares only the table JSON files); float compare within 4 ulp; spec-ambiguous constructs (DESIGN 10-2) not generated.',
         'technique': 'property-based testing (Hypothesis) against an independent reference decoder; corpus differential'},

 'C19': {'text': 'Complete enumeration of width 1..64 x boundary values x bit offset 0..7 for unsigned / sign-magnitude / in-place overwrite / non-fitting values / reads past the end (about 15k cells, exhaustive for that space), plus thousands of random typed field sequences against a str-of-bits model.',
         'note': 'Model of the stream is a Python str of bits; signed widths 2..64 (a sign-magnitude field needs a magnitude bit).',
         'technique': 'exhaustive small-scope enumeration + property-based sequences (Hypothesis) against a bit-string model'},

 'C02': {'text': 'Generated search: the encoder is fed the flat JSON of thousands of reference-built messages (as object and as JSON text, strings un-padded at random); uncompressed output must be byte-identical to the independently built message, compressed output is parsed by the reference compressed reader and must satisfy the validity predicate of the statement. Bounded random exploration.',
         'note': 'Trusts refbufr as the canonical writer; for compressed data only validity (min+diff==raw, all-ones<=>missing, width 0<=>all equal) is demanded, not a particular width.',
         'technique': 'property-based testing (Hypothesis): byte-identity differential against an independent encoder; validity predicate via independent compressed reader'},
 'C05': {'text': 'Exhaustive enumeration of every column of 1..4 subsets (quick: 1..3) over {missing, 0..2^w-2} for widths 1..4, numeric and code, through encoder->decoder, encoder->independent reader and reference-writer (all legal difference widths incl. 63)->decoder; plus generated templates / 33..64-bit fields / character columns stored both ways and compared on values, labels, links and nested view.',
         'note': 'Exhaustive only for the enumerated small-scope column space; random beyond. Reference writer defines "legal difference width" as any width holding the differences with all-ones reserved.',
         'technique': 'exhaustive small-scope enumeration + property-based metamorphic testing (compressed vs uncompressed) with an independent reader/writer'},

 'C06': {'text': 'Generated search over uncompressed multi-subset messages whose subsets differ in structure: the joint decode is compared with the decode of each subset alone and of a permutation (values, labels, links, hierarchical view), with the reference values, and the encoder output with the reference concatenation.',
         'note': 'Single-subset / permuted messages are rebuilt by the reference model from the same raw values; bounded random exploration.',
         'technique': 'property-based metamorphic testing (together vs alone vs permuted) with an independent reference'},
 'C07': {'text': 'Generated search over bitmap constructs (222/223/224/225/232 blocks, 236/237/235 chains, all bit patterns as data, listed / replicated / delayed bitmaps) and associated fields, compressed or not: bitmap_links and the full nested-JSON attribute structure are compared with the reference back-reference model and expected hierarchical view.',
         'note': 'Trusts the back-reference model of refbufr.walker and refbufr.nested; ambiguous combinations (DESIGN 10-2) not generated.',
         'technique': 'property-based testing (Hypothesis) against an independent reference model of bitmap back-references and attribute wiring'},
 'C15': {'text': 'Complete enumeration of every string of length 0..5 (quick) / 0..6 (thorough, 3.3M) over the 12-symbol alphabet of the property, each decided by an independent recogniser/parser of the documented grammar (accept <=> derivable, rejection only by PathExprParsingError, components and slices as the grammar dictates, print/parse round trip, no dependence on earlier parses by the same parser object); plus thousands of grammar-derived long expressions and 1-2 character mutants; thorough adds 4 atheris campaigns (2 from an empty corpus) with the same oracle inside the fuzz target.',
         'note': 'Exhaustive only for the bounded string space; IDs outside [0-9A-Z] and integers only int() accepts are unspecified (either outcome tolerated).  Slices compared by effect on lists of length 0..12.',
         'technique': 'exhaustive small-scope enumeration + grammar-based property testing (Hypothesis) + coverage-guided fuzzing (atheris) against a reference recogniser/parser'},
}
NOT_YET = {}
