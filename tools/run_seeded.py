#!/venv/bin/python
"""Run registered checks against seeded changes; record the outcome in each meta.json.
usage: run_seeded.py [--tier quick] <seeded-id> [<Cxx> ...]   (default: the property of the id)"""
import json, os, subprocess, sys
HERE = os.path.dirname(os.path.dirname(os.path.abspath(__file__)))
args = sys.argv[1:]
tier = 'quick'
if args and args[0] == '--tier':
    tier = args[1]; args = args[2:]
sid = args[0]
props = args[1:] or [sid.split('-')[0]]
d = os.path.join(HERE, 'seeded', sid)
meta = json.load(open(os.path.join(d, 'meta.json')))
r = subprocess.run([os.path.join(HERE, 'tools', 'sensitivity.py'), '--tier', tier, os.path.join(d, 'patch.diff')] + props,
                   stdout=subprocess.PIPE, stderr=subprocess.STDOUT)
out = r.stdout.decode()
print(out[:3000])
for line in out.splitlines():
    for p in props:
        if line.startswith(p + ': exit='):
            meta.setdefault('detected_by', {})['%s/%s' % (p, tier)] = line.split()[-1]
clauses = [l.strip() for l in out.splitlines() if l.strip().startswith('clause:')]
if clauses:
    meta['first_clause'] = clauses[0][:300]
json.dump(meta, open(os.path.join(d, 'meta.json'), 'w'), indent=1)
