#!/bin/sh
# ingest_four.sh Cxx  -- fifth round: confirm + store /tmp/seed5-Cxx as Cxx-I / Cxx-J, keep the notes, drop the worktree
p=$1
/verif/tools/ingest_seeded.py --letters IJ /tmp/seed5-$p $p 2>&1 | grep -v WARNING
for x in I J; do [ -d /verif/seeded/$p-$x ] && cp /tmp/seed5-$p/NOTES.md /verif/seeded/$p-$x/NOTES.md; done
git -C /repo worktree remove --force /tmp/seed5-$p
