#!/bin/sh
# run_all_seeded.sh [jobs]  -- every seeded change against the quick check of its property (meta.json updated); one summary line each
HERE=$(cd "$(dirname "$0")/.." && pwd)
J=${1:-4}
ls $HERE/seeded | xargs -P $J -I{} sh -c "/venv/bin/python $HERE/tools/run_seeded.py {} > /tmp/rs-{}.log 2>&1; echo {} \$(grep -E '^C[0-9]+: exit|PATCH-FAILED' /tmp/rs-{}.log | tr '\n' ' ')"
