#!/venv/bin/python
"""mk_taken.py <Cxx> -> markdown on stdout: one entry per earlier seeded change of that property (what it changed, what it
needs), taken from meta.json (breaks / needs) or, for rounds that kept the sub-agent's notes, from NOTES.md."""
import glob, json, os, re, sys
HERE = os.path.dirname(os.path.dirname(os.path.abspath(__file__)))
pid = sys.argv[1]
print('# Changes already written for property %s (do not repeat these mechanisms, code sites or triggers)\n' % pid)
for d in sorted(glob.glob(os.path.join(HERE, 'seeded', pid + '-*'))):
    sid = os.path.basename(d)
    m = json.load(open(os.path.join(d, 'meta.json')))
    if m.get('breaks') and not m['breaks'].startswith('see NOTES'):
        print('* %s. Needs: %s.' % (m['breaks'], m.get('needs', '')))
        continue
    notes = os.path.join(d, 'NOTES.md')
    if not os.path.exists(notes):
        continue
    t = open(notes).read()
    letter = sid[-1]
    which = 'A' if letter in 'ACEGIKM' else 'B'
    parts = re.split(r'\n##+ ', t)
    sec = next((p for p in parts if re.match(r'(Mutant|Change|Patch)\s*' + which, p, re.I)), None)
    if sec is None:
        continue
    if '**' not in sec[:600]:
        # older notes: free text, "Change: ..." / "What is needed ..." paragraphs
        head = sec.split('\n', 1)[0]
        mm = re.search(r'Change:\s*(.+?)(?=\n\s*\n)', sec, re.S)
        nn = re.search(r'(What is needed[^:]*|Needs[^:]*|Needed[^:]*):\s*(.+?)(?=\n\s*\n[A-Za-z]|\Z)', sec, re.S)
        what = re.sub(r'\s+', ' ', mm.group(1)).strip()[:420] if mm else re.sub(r'\s+', ' ', sec[len(head):len(head) + 420])
        needs = re.sub(r'\s+', ' ', nn.group(2)).strip()[:300] if nn else ''
        print('* [%s] %s Needs: %s' % (head[:160], what, needs))
        continue
    def grab(label):
        mm = re.search(r'\*\*(%s)[^*]*\*\*[:.]?\s*(.+?)(?=\n\s*\n|\n\* \*\*|\n\*\*|\Z)' % label, sec, re.S | re.I)
        return re.sub(r'\s+', ' ', mm.group(2)).strip()[:420] if mm else ''
    site = grab('File / site|Site|File')
    what = grab('What was changed[^*]*|Change / disguise|Change')
    needs = grab('Needed to manifest|What is needed[^*]*|Needs')
    print('* [%s] %s Needs: %s' % (site[:160], what, needs[:300]))
