#!/venv/bin/python
"""Run every patch under mutants/ (planted mutants and the reverts of the repaired defects) against the checks of
the properties it targets, in scratch copies of /repo (removed afterwards); write mutants/RESULTS.json.
usage: mutation_matrix.py [--tier quick] [--jobs 3] [name-substring ...]"""
import json, os, re, subprocess, sys
from concurrent.futures import ThreadPoolExecutor
HERE = os.path.dirname(os.path.dirname(os.path.abspath(__file__)))
args = sys.argv[1:]
tier, jobs = 'quick', 3
while args and args[0].startswith('--'):
    if args[0] == '--tier':
        tier = args[1]
    elif args[0] == '--jobs':
        jobs = int(args[1])
    args = args[2:]

# properties each repaired defect belongs to (from known_findings.txt 'fixed:' lines)
fixed = {}
for line in open(os.path.join(HERE, 'known_findings.txt')):
    if line.startswith('fixed:'):
        m = re.match(r'fixed: property=(C\d\d) (\w+) ', line)
        if m:
            fixed.setdefault(m.group(2), set()).add(m.group(1))
targets = {}
for f in sorted(os.listdir(os.path.join(HERE, 'mutants'))):
    if not f.endswith('.patch'):
        continue
    if args and not any(a in f for a in args):
        continue
    if f.startswith('revert_'):
        sha = f.split('_')[1]
        props = sorted(fixed.get(sha, []))
    else:
        props = [f[:3]]
    targets[f] = props


def one(item):
    f, props = item
    if not props:
        return f, {'error': 'no property mapped'}
    r = subprocess.run([os.path.join(HERE, 'tools', 'sensitivity.py'), '--tier', tier, os.path.join(HERE, 'mutants', f)] + props,
                       stdout=subprocess.PIPE, stderr=subprocess.STDOUT)
    out = r.stdout.decode(errors='replace')
    res = {}
    for line in out.splitlines():
        m = re.match(r'(C\d\d): exit=(\d) (\w[\w-]*)', line)
        if m:
            res[m.group(1)] = m.group(3)
    if 'PATCH-FAILED' in out:
        res['error'] = 'patch does not apply'
    return f, res


path = os.path.join(HERE, 'mutants', 'RESULTS.json')
results = json.load(open(path)) if os.path.exists(path) else {}
with ThreadPoolExecutor(jobs) as ex:
    for f, res in ex.map(one, sorted(targets.items())):
        results[f] = {'tier': tier, 'results': res}
        print(f, res, flush=True)
json.dump(results, open(path, 'w'), indent=1, sort_keys=True)
surv = [f for f, r in results.items() if not any(v == 'KILLED' for v in r['results'].values())]
print('%d patches, %d not killed by any mapped check: %s' % (len(results), len(surv), surv))
