#!/bin/sh
# sweep.sh <tier> <seeds...>   -- run every registered check at the given seeds from the directory this script lives in;
# prints one line per run (exit code, summary line) and every VIOLATION / HARNESS-ERROR / NOTE line
HERE=$(cd "$(dirname "$0")/.." && pwd)
tier=$1; shift
/venv/bin/python $HERE/tools/setup.py >/dev/null 2>&1
for seed in "$@"; do
  for p in C01 C02 C03 C04 C05 C06 C07 C08 C09 C10 C11 C12 C13 C14 C15 C16 C17 C18 C19 C20; do
    out=$(VERIF_SEED=$seed /venv/bin/python $HERE/run_check.py $p --tier $tier 2>&1)
    rc=$?
    echo "seed=$seed $p rc=$rc $(echo "$out" | grep -E '^(ok|FAIL) ' | tail -1)"
    echo "$out" | grep -E '^(VIOLATION|HARNESS-ERROR|NOTE|  clause)' | cut -c1-400 | head -12
  done
done
