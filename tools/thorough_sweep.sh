#!/bin/sh
# thorough_sweep.sh [Cxx ...]  -- the thorough tier of the given checks (default: all, the ones whose generators changed most first); one line per
# check plus every VIOLATION / HARNESS-ERROR line.  A soundness run for the unchanged tree, not a registered check.
HERE=$(cd "$(dirname "$0")/.." && pwd)
/venv/bin/python $HERE/tools/setup.py >/dev/null 2>&1
[ $# -gt 0 ] || set -- C09 C06 C03 C01 C17 C20 C14 C18 C04 C02 C07 C05 C10 C11 C12 C16 C19 C15 C08 C13
for p in "$@"; do
  out=$(/venv/bin/python $HERE/run_check.py $p --tier thorough 2>&1)
  rc=$?
  echo "$p rc=$rc $(echo "$out" | grep -E '^(ok|FAIL) ' | tail -1)"
  echo "$out" | grep -E '^(VIOLATION|HARNESS-ERROR|NOTE|  clause|[A-Za-z]+Error)' | cut -c1-500 | head -8
done
