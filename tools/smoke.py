"""ad-hoc smoke run: random cases, decode with the SUT, compare with the reference"""
import sys, time, random
from collections import Counter
sys.path.insert(0, '/verif')
from vlib.choose import Chooser
from vlib import sut
from gen import messages

seed = int(sys.argv[1]) if len(sys.argv) > 1 else 5
N = int(sys.argv[2]) if len(sys.argv) > 2 else 1500
rnd = random.Random(seed)


class RC(Chooser):
    def int(self, lo, hi):
        if lo == hi:
            return lo
        v = rnd.randint(lo, hi)
        self.record.append(v)
        return v


opts = messages.GenOpts('quick')
n = rej = bad = 0
t = time.time()
feat = Counter(); buckets = Counter()
dec = sut.Decoder()


def close(x, y):
    if x == y and type(x) == type(y):
        return True
    return isinstance(x, float) and isinstance(y, float) and abs(x - y) <= 1e-12 * max(1, abs(y))


for i in range(N):
    ch = RC()
    try:
        c = messages.gen_case(ch, opts)
    except messages.Reject as e:
        rej += 1; buckets['REJ ' + str(e)[:60]] += 1; continue
    n += 1
    for f in c.features: feat[f] += 1
    o = sut.call(dec.process, c.bytes)
    if not o.ok:
        bad += 1; k = 'EXC ' + repr(o)[:90]; buckets[k] += 1
        if buckets[k] == 1: print(c.summary(), o)
        continue
    ob = sut.observe(o.value)
    exp_v = c.values(); exp_l = c.labels()
    if ob['labels'] != exp_l:
        bad += 1; buckets['labels'] += 1
        if buckets['labels'] < 3: print('LABELS', c.summary()); print(ob['labels'][0]); print(exp_l[0])
        continue
    ok = all(len(a) == len(b) and all(close(x, y) for x, y in zip(a, b)) for a, b in zip(ob['values'], exp_v))
    if not ok:
        bad += 1; buckets['values'] += 1
        if buckets['values'] < 3: print('VALUES', c.summary()); print(ob['values']); print(exp_v)
        continue
    if ob['links'] != c.links():
        bad += 1; buckets['links'] += 1
        if buckets['links'] < 3: print('LINKS', c.summary()); print(ob['links']); print(c.links())
print(n, rej, bad, time.time() - t)
for k, v in buckets.most_common(40): print(v, k)
print(sorted(feat.items()))
