#!/venv/bin/python
"""mkmutant.py <name> <file relative to repo> <<< python-literal (old, new)   ->  mutants/<name>.patch"""
import difflib, os, sys, ast
name, rel = sys.argv[1], sys.argv[2]
old, new = ast.literal_eval(sys.stdin.read())
src = open(os.path.join('/repo', rel)).read()
assert src.count(old) == 1, 'pattern occurs %d times' % src.count(old)
dst = src.replace(old, new)
diff = ''.join(difflib.unified_diff(src.splitlines(True), dst.splitlines(True), 'a/' + rel, 'b/' + rel))
out = os.path.join(os.path.dirname(os.path.dirname(os.path.abspath(__file__))), 'mutants', name + '.patch')
open(out, 'w').write(diff)
print(out)
