"""Regenerate MANIFEST.json from the table below (kept valid at all times)."""
import json, os, sys
HERE = os.path.dirname(os.path.dirname(os.path.abspath(__file__)))
sys.path.insert(0, HERE)
from tools.manifest_table import CHECKS, NOT_YET

props = [json.loads(l) for l in open(os.path.join(HERE, 'properties.jsonl'))]
ids = [p['id'] for p in props]
# checks whose own generator / oracle pair is also driven by libFuzzer through a byte-backed choice sequence (DESIGN 16)
STRUCTURED = {'C01', 'C02', 'C03', 'C04', 'C05', 'C06', 'C07', 'C08', 'C09', 'C10', 'C11', 'C12', 'C14', 'C16', 'C17', 'C19'}
EXTRA = {
 'C01': ' A further stage decodes the same element on pairs of master table versions that define it with the same width but another scale / reference value, one after the other with the shared decoder object, in both orders.',
 'C10': ' Messages with 9..24 subsets are generated too, and two extractions are taken from one message object before either is encoded (each must equal the extraction encoded at once / taken from a freshly decoded message).',
 'C12': ' Section lengths are damaged by 1..250 octets in either direction.',
 'C13': ' Pools also hold twins: one WMO sequence with and without a local table that re-defines something it reaches (same master version, two table groups), and one element on two master versions that give it the same width but another scale / reference value.',
 'C15': ' A second complete enumeration covers every slice body of length 0..6 (thorough 0..8) over "-01: A" in three bracket contexts.',
 'C19': ' Sequences interleave mid-sequence to_bytes() observations (octet-aligned by construction) and in-place overwrites of earlier unsigned fields with the writes.',
}
checks = []
for pid in ids:
    if pid not in CHECKS:
        continue
    c = dict(CHECKS[pid])
    c['text'] = c['text'] + EXTRA.get(pid, '')
    if pid in STRUCTURED:
        c['text'] += (' The same generator and oracle are additionally driven by coverage-guided campaigns (atheris / libFuzzer mutating the '
                      'bytes behind the choice sequence, pybufrkit instrumented; quick 2 x 1500, thorough 8 x 25000 executions, half from an empty corpus).')
        c['technique'] += '; coverage-guided fuzzing (atheris) of the same generator and oracle through a byte-backed choice sequence'
    checks.append({
        'property_id': pid,
        'quick_cmd': '/venv/bin/python /verif/run_check.py %s --tier quick' % pid,
        'thorough_cmd': '/venv/bin/python /verif/run_check.py %s --tier thorough' % pid,
        'evidence_file': '/verif/evidence/%s.json' % pid,
        'replay_cmd_template': '/venv/bin/python /verif/run_check.py %s --replay {path}' % pid,
        'engine': 'pbt',
        'level_claimed': {'category': c.get('category', 'exploration'), 'text': c['text'], 'design_ref': 'DESIGN.md 7-%s' % pid},
        'level_note': c['note'],
        'technique': c['technique'],
    })
na = [{'property_id': pid, 'reason': NOT_YET.get(pid, 'check not built yet in this session; see DESIGN.md 7-%s for the planned property-based check' % pid)}
      for pid in ids if pid not in CHECKS]
m = {
    'version': 1,
    'setup_cmd': '/venv/bin/python /verif/tools/setup.py',
    'hooks': {'guard': 'PYBUFRKIT_VERIF', 'enable': 'none needed: every observation point is public API; checks import /repo from its working tree (PYTHONPATH) in a fresh process',
              'baseline_off_cmd': 'cd /repo && /venv/bin/python -m pytest -ra -q -p no:cacheprovider --timeout=900 --continue-on-collection-errors',
              'source_commits': [], 'add_only': True},
    'engines': [{'name': 'pbt', 'path': '/verif/run_check.py', 'serves_properties': [c['property_id'] for c in checks],
                 'kind_free_text': 'Hypothesis-driven generated search + exhaustive small-scope enumeration against an independent reference model (refbufr), sharded over processes; own time-boxed choice-sequence shrinker; atheris (libFuzzer) on raw strings for the two character state machines and, through a byte-backed choice sequence, on the structured generators of 16 checks'}],
    'checks': checks,
    'not_applicable': na,
    'notes': 'See DESIGN.md (sections 13-16: as built, defects and findings, sensitivity, third session). Open known findings and the repaired defects (21 fix: commits in /repo) are listed in /verif/known_findings.txt; probes and regression inputs in /verif/corpus/; 80 independently written breaking changes (two rounds) in /verif/seeded/, all killed by the quick check of their property; planted mutants and the reverts of every repair in /verif/mutants/ (results in RESULTS.json). No source hooks are needed: every observation point is public API.',
}
json.dump(m, open(os.path.join(HERE, 'MANIFEST.json'), 'w'), indent=1)
try:
    import jsonschema
except ImportError:
    jsonschema = None
if jsonschema:
    jsonschema.validate(m, json.load(open("/root/.vp/MANIFEST.schema.json")))
print('MANIFEST ok: %d checks, %d not_applicable' % (len(checks), len(na)))
