"""Regenerate MANIFEST.json from the table below (kept valid at all times)."""
import json, os, sys
HERE = os.path.dirname(os.path.dirname(os.path.abspath(__file__)))
sys.path.insert(0, HERE)
from tools.manifest_table import CHECKS, NOT_YET

props = [json.loads(l) for l in open(os.path.join(HERE, 'properties.jsonl'))]
ids = [p['id'] for p in props]
# checks whose own generator / oracle pair is also driven by libFuzzer through a byte-backed choice sequence (DESIGN 16)
STRUCTURED = {'C01', 'C02', 'C03', 'C04', 'C05', 'C06', 'C07', 'C08', 'C09', 'C10', 'C11', 'C12', 'C14', 'C16', 'C17', 'C19'}
EXTRA = {
 'C01': ' A further stage decodes the same element on pairs of master table versions that define it with the same width but another scale / reference value, one after the other with the shared decoder object, in both orders.',
 'C10': ' Messages with 9..24 subsets are generated too, and two extractions are taken from one message object before either is encoded (each must equal the extraction encoded at once / taken from a freshly decoded message).',
 'C12': ' Section lengths are damaged by 1..250 octets in either direction.',
 'C13': ' Pools also hold twins: one WMO sequence with and without a local table that re-defines something it reaches (same master version, two table groups), and one element on two master versions that give it the same width but another scale / reference value.',
 'C15': ' A second complete enumeration covers every slice body of length 0..6 (thorough 0..8) over "-01: A" in three bracket contexts.',
 'C19': ' Sequences interleave mid-sequence to_bytes() observations (octet-aligned by construction) and in-place overwrites of earlier unsigned fields with the writes.',
}
EXTRA5 = {
 'C01': ' Fifth session: scale-0 fields widened by 201YYY to 53..134 bits holding values a double cannot carry; operator-bearing Table D sequences as templates of their own; every eighth case decoded again with debug logging switched on.',
 'C02': ' Fifth session: the same wide fields through the encoder; character values handed over as byte strings; the shared encoder is first made to refuse a message half-way on every fourth case; two 203YYY definition lists without a cancellation between them; every eighth case encoded again with debug logging on.',
 'C03': ' Fifth session: the round trip with template compilation on one side only (compiling encoder + plain decoder and the reverse) for templates in the domain of compilation; strings that end in NUL octets or hold octet pairs that are valid UTF-8.',
 'C04': ' Fifth session: every decoder-side case also through the stream scanner (full and info-only), with the stop signature\'s octets inside section 2; encoder cells also fed byte-string signatures, a flat JSON rendering passed on as it is, and subset(); messages without descriptors (data section of zero bits) in both directions.',
 'C05': ' Fifth session: every fourth pair goes through template-compiling coders.',
 'C06': ' Fifth session: every third case decoded again with debug logging on (audited per-subset lists); templates whose section 3 lists no operator (operator-bearing Table D sequences, biased to those that leave something in force at the end of the subset); hand-laid-out subsets with the same descriptors and other bitmaps.',
 'C07': ' Fifth session: links, values and hierarchical view also through the template-compiling decoder (compile, then from the cache); 225255 while 201 / 202 is in force; subsets with the same descriptors and other bitmaps.',
 'C08': ' Fifth session: a decoder and an encoder that share one compiled-template manager run each other\'s compiled templates, in either order.',
 'C09': ' Fifth session: the hierarchical view is compared with the one expected from the reference model (which value hangs on which node); subsets with the same descriptors and other bitmaps.',
 'C10': ' Fifth session: hand-laid-out foreign compressed character columns (narrow increments, unused all-zero element) -- extract + encode must leave the source untouched (also on the corpus); an overriding encoder exists elsewhere in the process; the subset command with -t on messages laid out with a private tables root.',
 'C11': ' Fifth session: scans repeated with the decoder\'s documented options handed through; filter expressions with the embedded query inside generator expressions / lambdas; info -c over six files per invocation incl. files without a message.',
 'C12': ' Fifth session: undefined class 31 ids at delayed-replication factor positions; a continue-on-error scan with a filter that holds for every message; every file-reading sub-command (subset, compile, query, script, info -t, decode -a/-j, split) on a damaged message.',
 'C13': ' Fifth session: pool messages that name tables which are not installed (decode falls back, encode refuses -- after any history), decoded and encoded back to back; an overriding encoder created before the coders of every other history.',
 'C14': ' Fifth session: lists and every Table D sequence again in a forked child that registered in-stream definitions; the lookup and compile commands per table selection given through their options; table selections under the bundled and under a private tables root directory in one process, in four orders.',
 'C16': ' Fifth session: every other query is preceded by a rejected expression through the shared querent; every path also through a querent whose parser was built with bare_id_matches_all=False (no slice = first match).',
 'C17': ' Fifth session: every fifth query is preceded by a malformed expression through the shared querent.',
 'C18': ' Fifth session: one runner over a sibling message and the first message again (fresh names per run); the script sub-command (argument / -f / two files; level by -n, by pragma, by neither).',
 'C19': ' Fifth session: in-place overwrites with values that do not fit (2^n, 2^n+1, -1, -2^(n-1), -2^n) are refused and change nothing, for every width and offset.',
 'C20': ' Fifth session: 0..6 Table A entries; five equivalent section-3 spellings of the dictionary layout; scans with the decoder\'s options handed through (as decode -m does).',
}
EXTRA7 = {
 'C01': ' 203 definition lists that hold a replication; one element with associated fields of two widths in consecutive messages.',
 'C03': ' New reference values on, just inside and just outside what 203YYY holds (inside: exact, outside: refused); whole-number inputs at a negative effective scale.',
 'C04': ' Section 2 local parts that stop inside an octet; section-0 totals declared wrongly on the decoder side.',
 'C05': ' Templates that end inside an operator scope as compressed / uncompressed pairs; associated fields of two widths on one element.',
 'C06': ' Hand-laid-out templates that end inside 201 / 202 / 207 / 208 / 204 / 203 with the same element before and under the operator.',
 'C08': ' The hand-laid-out families (same layout, bitmaps that select other elements; static marker layout) compiled against not compiled.',
 'C12': ' The all-zero descriptor among the undefined ids.',
 'C14': ' The all-zero descriptor among the undefined ids.',
 'C15': ' A path handed out earlier must stay what it was after the parser parsed another expression.',
 'C17': ' Present-but-empty section 2; master table versions that are not installed.',
 'C18': ' Literals that run over a line end; hand-laid-out level-0 scripts whose first selected subset has no match.',
 'C19': ' Oversized values up to 2^(n+64).',
 'C20': ' Definition messages with Table D entries only and with Table B entries only (re-defining a member of an earlier sequence); replications nested three deep after definitions.',
}
for k, v in EXTRA5.items():
    EXTRA[k] = EXTRA.get(k, '') + v + EXTRA7.get(k, '')
checks = []
for pid in ids:
    if pid not in CHECKS:
        continue
    c = dict(CHECKS[pid])
    c['text'] = c['text'] + EXTRA.get(pid, '')
    if pid in STRUCTURED:
        c['text'] += (' The same generator and oracle are additionally driven by coverage-guided campaigns (atheris / libFuzzer mutating the '
                      'bytes behind the choice sequence, pybufrkit instrumented; quick 2 x 1500, thorough 8 x 25000 executions, half from an empty corpus).')
        c['technique'] += '; coverage-guided fuzzing (atheris) of the same generator and oracle through a byte-backed choice sequence'
    checks.append({
        'property_id': pid,
        'quick_cmd': '/venv/bin/python /verif/run_check.py %s --tier quick' % pid,
        'thorough_cmd': '/venv/bin/python /verif/run_check.py %s --tier thorough' % pid,
        'evidence_file': '/verif/evidence/%s.json' % pid,
        'replay_cmd_template': '/venv/bin/python /verif/run_check.py %s --replay {path}' % pid,
        'engine': 'pbt',
        'level_claimed': {'category': c.get('category', 'exploration'), 'text': c['text'], 'design_ref': 'DESIGN.md 7-%s' % pid},
        'level_note': c['note'],
        'technique': c['technique'],
    })
na = [{'property_id': pid, 'reason': NOT_YET.get(pid, 'check not built yet in this session; see DESIGN.md 7-%s for the planned property-based check' % pid)}
      for pid in ids if pid not in CHECKS]
m = {
    'version': 1,
    'setup_cmd': '/venv/bin/python /verif/tools/setup.py',
    'hooks': {'guard': 'PYBUFRKIT_VERIF', 'enable': 'none needed: every observation point is public API; checks import /repo from its working tree (PYTHONPATH) in a fresh process',
              'baseline_off_cmd': 'cd /repo && /venv/bin/python -m pytest -ra -q -p no:cacheprovider --timeout=900 --continue-on-collection-errors',
              'source_commits': [], 'add_only': True},
    'engines': [{'name': 'pbt', 'path': '/verif/run_check.py', 'serves_properties': [c['property_id'] for c in checks],
                 'kind_free_text': 'Hypothesis-driven generated search + exhaustive small-scope enumeration against an independent reference model (refbufr), sharded over processes; own time-boxed choice-sequence shrinker; atheris (libFuzzer) on raw strings for the two character state machines and, through a byte-backed choice sequence, on the structured generators of 16 checks'}],
    'checks': checks,
    'not_applicable': na,
    'notes': 'See DESIGN.md (sections 13-18: as built, defects and findings, sensitivity, third to fifth session). Open known findings and the repaired defects (22 fix: commits in /repo) are listed in /verif/known_findings.txt; probes and regression inputs in /verif/corpus/; 280 independently written breaking changes (seven rounds) in /verif/seeded/, each with the check that kills it recorded in its meta.json; planted mutants and the reverts of every repair in /verif/mutants/ (results in RESULTS.json). No source hooks are needed: every observation point is public API.',
}
json.dump(m, open(os.path.join(HERE, 'MANIFEST.json'), 'w'), indent=1)
try:
    import jsonschema
except ImportError:
    jsonschema = None
if jsonschema:
    jsonschema.validate(m, json.load(open("/root/.vp/MANIFEST.schema.json")))
print('MANIFEST ok: %d checks, %d not_applicable' % (len(checks), len(na)))
