"""Regenerate MANIFEST.json from the table below (kept valid at all times)."""
import json, os, sys
HERE = os.path.dirname(os.path.dirname(os.path.abspath(__file__)))
sys.path.insert(0, HERE)
from tools.manifest_table import CHECKS, NOT_YET

props = [json.loads(l) for l in open(os.path.join(HERE, 'properties.jsonl'))]
ids = [p['id'] for p in props]
checks = []
for pid in ids:
    if pid not in CHECKS:
        continue
    c = CHECKS[pid]
    checks.append({
        'property_id': pid,
        'quick_cmd': '/venv/bin/python /verif/run_check.py %s --tier quick' % pid,
        'thorough_cmd': '/venv/bin/python /verif/run_check.py %s --tier thorough' % pid,
        'evidence_file': '/verif/evidence/%s.json' % pid,
        'replay_cmd_template': '/venv/bin/python /verif/run_check.py %s --replay {path}' % pid,
        'engine': 'pbt',
        'level_claimed': {'category': c.get('category', 'exploration'), 'text': c['text'], 'design_ref': 'DESIGN.md 7-%s' % pid},
        'level_note': c['note'],
        'technique': c['technique'],
    })
na = [{'property_id': pid, 'reason': NOT_YET.get(pid, 'check not built yet in this session; see DESIGN.md 7-%s for the planned property-based check' % pid)}
      for pid in ids if pid not in CHECKS]
m = {
    'version': 1,
    'setup_cmd': '/venv/bin/python /verif/tools/setup.py',
    'hooks': {'guard': 'PYBUFRKIT_VERIF', 'enable': 'none needed: every observation point is public API; checks import /repo from its working tree (PYTHONPATH) in a fresh process',
              'baseline_off_cmd': 'cd /repo && /venv/bin/python -m pytest -ra -q -p no:cacheprovider --timeout=900 --continue-on-collection-errors',
              'source_commits': [], 'add_only': True},
    'engines': [{'name': 'pbt', 'path': '/verif/run_check.py', 'serves_properties': [c['property_id'] for c in checks],
                 'kind_free_text': 'Hypothesis-driven generated search + exhaustive small-scope enumeration against an independent reference model (refbufr), sharded over processes; own time-boxed choice-sequence shrinker; atheris for the two character state machines (thorough)'}],
    'checks': checks,
    'not_applicable': na,
    'notes': 'See DESIGN.md (sections 13-15: as built, defects and findings, sensitivity). Open known findings and the repaired defects (19 fix: commits in /repo) are listed in /verif/known_findings.txt; probes and regression inputs in /verif/corpus/; independently written breaking changes in /verif/seeded/; planted mutants and the reverts of every repair in /verif/mutants/ (results in RESULTS.json). No source hooks are needed: every observation point is public API.',
}
json.dump(m, open(os.path.join(HERE, 'MANIFEST.json'), 'w'), indent=1)
try:
    import jsonschema
except ImportError:
    jsonschema = None
if jsonschema:
    jsonschema.validate(m, json.load(open("/root/.vp/MANIFEST.schema.json")))
print('MANIFEST ok: %d checks, %d not_applicable' % (len(checks), len(na)))
