#!/bin/sh
# ingest_four.sh Cxx  -- fourth round: confirm + store /tmp/seed4-Cxx as Cxx-G / Cxx-H, keep the notes, drop the worktree
p=$1
/verif/tools/ingest_seeded.py --letters GH /tmp/seed4-$p $p 2>&1 | grep -v WARNING
for x in G H; do [ -d /verif/seeded/$p-$x ] && cp /tmp/seed4-$p/NOTES.md /verif/seeded/$p-$x/NOTES.md; done
git -C /repo worktree remove --force /tmp/seed4-$p
