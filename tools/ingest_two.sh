#!/bin/sh
# ingest_two.sh Cxx  -- second round: confirm + store /tmp/seed2-Cxx as Cxx-C / Cxx-D, keep the notes, drop the worktree
p=$1
/verif/tools/ingest_seeded.py --round2 /tmp/seed2-$p $p 2>&1 | grep -v WARNING
for x in C D; do [ -d /verif/seeded/$p-$x ] && cp /tmp/seed2-$p/NOTES.md /verif/seeded/$p-$x/NOTES.md; done
git -C /repo worktree remove --force /tmp/seed2-$p
