#!/venv/bin/python
"""Fill 'breaks' / 'needs' of every seeded change (hand-written summaries) and print the detection matrix."""
import json, os, sys
HERE = os.path.dirname(os.path.dirname(os.path.abspath(__file__)))
TEXT = {
 'C01-A': ('compressed 203YYY: the new reference value is read unsigned instead of sign-magnitude', 'a compressed message that re-defines a reference value with 203YYY and a negative new reference'),
 'C01-B': ('back-reference scan accepts subclasses of ElementDescriptor (marker / associated entries become referencable)', 'a second bitmap after 235000 whose count-back crosses marker values of an earlier block'),
 'C02-A': ('encoder takes the bitmap bits of subset 0 for every subset of an uncompressed message', 'uncompressed message, >= 2 subsets whose bitmaps differ, marker operator taking width/scale from the referenced element'),
 'C02-B': ('compressed encoder writes width 0 when the present values are equal although another subset is missing', 'compressed numeric column: equal present values + a missing entry'),
 'C03-A': ('encoder rounds int(x*10^s - ref + 0.5): scaled values in (-1.5,-0.5) become 0 instead of being refused', 'uncompressed value one unit below the smallest representable value of a scaled field'),
 'C03-B': ('compressed encoder: equal-after-rounding present values next to a missing one lose the missing entry', 'compressed column whose present values agree only after rounding, plus None'),
 'C04-A': ('even-octet padding computed from the wrong extent when declared lengths are honoured', 'edition <= 3, ignore_declared_length=False, an earlier section declared with a surplus octet'),
 'C04-B': ('decoder checks section overrun in whole octets and seeks to the declared end', 'section 4 one octet too short for data that end inside the last octet'),
 'C05-A': ('all_equal / all_missing of a compressed column derived from min/max, ignoring missing entries', 'compressed column: equal present entries + missing entries'),
 'C05-B': ('bitmap links dict no longer shared for compressed data (only subset 0 gets links)', 'compressed message with bitmap attributes and >= 2 subsets'),
 'C06-A': ('marker descriptors cached by (operator, flat index) across subsets', 'uncompressed subsets with different replication counts in front of a 224255 block'),
 'C06-B': ('wiring state (204 list, 221 count) initialised once per message instead of per subset', 'template ending inside an open 204YYY or a 221YYY run, >= 2 uncompressed subsets'),
 'C07-A': ('bitmap links of subset 0 used for all subsets of an uncompressed message', 'uncompressed message whose subsets carry different bitmaps'),
 'C07-B': ('marker descriptors cached per element: 225255 after 224255 on the same element keeps width / reference of the first', '224255 / 225255 chain over one element sharing a bitmap (236000 / 237000)'),
 'C08-A': ('compiler omits State031031Reset when the compile-time counter is still zero', 'a bitmap defined inside a replication that runs more than once'),
 'C08-B': ('compiled-template cache keyed by top-level member ids only', 'two templates that differ only inside a top-level replication body, same coder, cache >= 1'),
 'C09-A': ('nested text -> flat: string values located by the opening quote b\' only', 'string values containing a quote character or ending in a double quote'),
 'C09-B': ('wiring state initialised once per message (same root cause family as C06-B)', 'second subset of an uncompressed message whose template leaves 204 / 221 in force at its end'),
 'C10-A': ('subset() takes a slice min..max when len(indices) == span', 'index collection with a repeat and a gap of the same size, e.g. [0, 0, 2]'),
 'C10-B': ('encoder writes a single-subset compressed message through the uncompressed path', 'extract one subset from a compressed message'),
 # ---- second round (C / D) ----
 'C01-C': ('nested 204YYY: only the innermost associated-field width is used instead of the sum', 'two 204YYY in force at once with a non-class-31 element in the inner scope'),
 'C01-D': ('per-coder cache of (10**scale, reference) keyed by descriptor id / width / operator state, stale across table versions', 'one Decoder decodes version X then version Y where an element keeps its width but changes scale or reference (013118, 014018, 015083)'),
 'C02-C': ('203 new reference value stored already multiplied by the 207 factor at definition time', '203YYY together with 207YYY, the 207 state differing between definition and use'),
 'C02-D': ('operator registers reset from a module-level table whose 204 entry is one shared list', 'a subset (or failed run) that ends with 204YYY not cancelled; then the next subset / message'),
 'C03-C': ('write_uint fast path for whole-octet widths masks the value instead of range checking', 'out-of-range value on a field whose effective width is 8/16/24/32 bits, uncompressed'),
 'C03-D': ('value rounded to scale + 202 offset before scaling, forgetting the 207 scale increment', 'uncompressed data, 207YYY in force, a value that uses the extra digits'),
 'C04-C': ('total length taken from a running count that omits the zero fill of a section declared longer', 'Encoder(ignore_declared_length=False) with surplus octets declared in a section'),
 'C04-D': ('recompute mode zeroes declared lengths of sections 1, 3, 4 but forgets section 2', 'default mode, section 2 present, its declared length different from the natural one'),
 'C05-C': ('compressed character column: an all-ones minimum is blanked like an all-zero one', 'compressed character column missing in every subset'),
 'C05-D': ('all-missing compressed column written with the all-ones value of the Table B width, not of the effective width', 'compressed, numeric element widened by 201 / 207 and missing in all subsets'),
 'C06-C': ('bitmap / back-reference registers kept across subsets when a 236000 bitmap is still defined', 'uncompressed, >= 2 subsets, uncancelled 236000 bitmap, replication in front with differing counts'),
 'C06-D': ('uncompressed subsets with the same flat descriptor sequence share the wired node list', 'two subsets with equal structure whose bitmaps select different elements (nested view only)'),
 'C07-C': ('back-reference boundary set only once; 235000 never resets it', 'a bitmap defined after 235000 in the same subset'),
 'C07-D': ('237255 also clears the back references', '236000 bitmap, 237255, then an operator that defines a new bitmap (no 235000)'),
 'C08-C': ('compiled marker statements record no state properties when no operator is in effect', 'marker under 201/202/207/208, later a marker after the operator was cancelled'),
 'C08-D': ('re-loaded compiled template resolves each descriptor id once (pseudo descriptors get the plain element)', 'JSON save/load of a template that uses an element first without and then with a 204 field / 206 skip'),
 'C09-C': ('flat text label padded with ljust(74) instead of cut to 74 characters', 'an element whose Table B name is longer than 67 characters (flat text -> flat JSON)'),
 'C09-D': ('wiring exempts only 031021 (not all of class 31) from the associated field', 'a bitmap or other class 31 element inside an open 204 scope'),
 'C10-C': ('selected indices iterated in set order', 'message with >= 9 subsets and a selection whose small ints wrap the hash slots'),
 'C10-D': ('subset() caches a skeleton whose inner lists are shared by all results of one message', 'two extractions from one message object, the first encoded after the second was taken'),
 'C11-C': ('start signature searched with a regex whose "." does not match 0x0A', 'a message whose 3-octet total length holds the byte 0x0A'),
 'C11-D': ('declared-length override for info-only messages applied only without a filter', 'filter expression together with info_only=True (API only)'),
 'C12-C': ('221YYY "data not present" branch taken for every F=0 descriptor, undefined ones included', 'undefined element of class 0 / 10-63 substituted inside a 221 scope'),
 'C12-D': ('after a failed message the scan skips len(serialized_bytes) of the info-only re-read', 'section 4 length raised by >= 5 octets, damaged message not the last, continue-on-error'),
 'C13-C': ('WMO Table D sequences shared between table groups of one master version', 'two groups with the same master version and different local tables; a sequence nested in a sequence reaching a re-defined element'),
 'C13-D': ('Table A/C/R of an evicted group handed to its replacement (wrong table_group_key)', 'table-group cache overflow; compiled templates then served for the wrong version'),
 'C14-C': ('fixed replication with count 1 spliced into the enclosing list', 'any 1XX001, e.g. 310081 of master versions 40 / 41'),
 'C14-D': ('flat_member_ids keeps a never-cleared set of expanded sequences as cycle guard', 'a sequence / template that reaches the same sub-sequence twice'),
 'C15-C': ('slice field validated with lstrip("-").isdigit() before int()', 'a field with two or more leading minus signs: [--1]'),
 'C15-D': ('IDs taken as one slice of the expression with rstrip(): blanks inside an ID stay', 'whitespace strictly inside an ID'),
 'C16-C': ('compressed-style evaluation (subset 0 layout) when section 3 shows no delayed replication', 'uncompressed, >= 2 subsets, delayed replication only inside a Table D sequence, differing counts'),
 'C16-D': ('all-digit path IDs compared numerically: marker nodes match their element id', 'bare ID of an element that marker operators (22X255) refer to'),
 'C17-C': ('section index parsed by a regex with a single digit', '%k.name with a multi-digit index (%10.length, %03.section_length)'),
 'C17-D': ('incomplete rename: info-only slice taken from the end of the previous message', 'info-only scan of a stream with bytes before / between messages'),
 'C18-C': ('default pragma dict moved to the class: all runners share the nesting level', 'two ScriptRunner objects with different levels, run after both were built'),
 'C18-D': ('a quote inside a comment opens a literal', 'a comment containing a quote character'),
 'C19-C': ('to_bytes() cached by stream length', 'to_bytes(), set_uint() of another value, to_bytes() again with no append in between'),
 'C19-D': ('octet-aligned read_bytes returns a slice of the input (short at the end)', 'a bytes read that starts on an octet boundary with fewer octets left than asked for'),
 'C20-C': ('only the table group of the definition message\'s own version is invalidated', 'another table group already loaded before the definition message, data message on that version'),
 'C20-D': ('NCEP replication-only repair done in place on a shared sequence object', 'a replication-only sequence used at two places of one template'),
}
sys.path.insert(0, HERE)
rows = []
for sid in sorted(os.listdir(os.path.join(HERE, 'seeded'))):
    mp = os.path.join(HERE, 'seeded', sid, 'meta.json')
    m = json.load(open(mp))
    if sid in TEXT:
        m['breaks'], m['needs'] = TEXT[sid]
    elif not m.get('breaks'):
        notes = os.path.join(HERE, 'seeded', sid, 'NOTES.md')
        m['breaks'] = 'see NOTES.md (section for mutant %s)' % sid[-1]
        m['needs'] = 'see NOTES.md (section for mutant %s)' % sid[-1]
    json.dump(m, open(mp, 'w'), indent=1)
    rows.append((sid, m.get('detected_by', {}), m.get('breaks', '')[:90]))
for sid, det, br in rows:
    print('%-6s %-40s %s' % (sid, ' '.join('%s=%s' % (k, v) for k, v in sorted(det.items())), br))
