#!/venv/bin/python
"""Fill 'breaks' / 'needs' of every seeded change (hand-written summaries) and print the detection matrix."""
import json, os, sys
HERE = os.path.dirname(os.path.dirname(os.path.abspath(__file__)))
TEXT = {
 'C01-A': ('compressed 203YYY: the new reference value is read unsigned instead of sign-magnitude', 'a compressed message that re-defines a reference value with 203YYY and a negative new reference'),
 'C01-B': ('back-reference scan accepts subclasses of ElementDescriptor (marker / associated entries become referencable)', 'a second bitmap after 235000 whose count-back crosses marker values of an earlier block'),
 'C02-A': ('encoder takes the bitmap bits of subset 0 for every subset of an uncompressed message', 'uncompressed message, >= 2 subsets whose bitmaps differ, marker operator taking width/scale from the referenced element'),
 'C02-B': ('compressed encoder writes width 0 when the present values are equal although another subset is missing', 'compressed numeric column: equal present values + a missing entry'),
 'C03-A': ('encoder rounds int(x*10^s - ref + 0.5): scaled values in (-1.5,-0.5) become 0 instead of being refused', 'uncompressed value one unit below the smallest representable value of a scaled field'),
 'C03-B': ('compressed encoder: equal-after-rounding present values next to a missing one lose the missing entry', 'compressed column whose present values agree only after rounding, plus None'),
 'C04-A': ('even-octet padding computed from the wrong extent when declared lengths are honoured', 'edition <= 3, ignore_declared_length=False, an earlier section declared with a surplus octet'),
 'C04-B': ('decoder checks section overrun in whole octets and seeks to the declared end', 'section 4 one octet too short for data that end inside the last octet'),
 'C05-A': ('all_equal / all_missing of a compressed column derived from min/max, ignoring missing entries', 'compressed column: equal present entries + missing entries'),
 'C05-B': ('bitmap links dict no longer shared for compressed data (only subset 0 gets links)', 'compressed message with bitmap attributes and >= 2 subsets'),
 'C06-A': ('marker descriptors cached by (operator, flat index) across subsets', 'uncompressed subsets with different replication counts in front of a 224255 block'),
 'C06-B': ('wiring state (204 list, 221 count) initialised once per message instead of per subset', 'template ending inside an open 204YYY or a 221YYY run, >= 2 uncompressed subsets'),
 'C07-A': ('bitmap links of subset 0 used for all subsets of an uncompressed message', 'uncompressed message whose subsets carry different bitmaps'),
 'C07-B': ('marker descriptors cached per element: 225255 after 224255 on the same element keeps width / reference of the first', '224255 / 225255 chain over one element sharing a bitmap (236000 / 237000)'),
 'C08-A': ('compiler omits State031031Reset when the compile-time counter is still zero', 'a bitmap defined inside a replication that runs more than once'),
 'C08-B': ('compiled-template cache keyed by top-level member ids only', 'two templates that differ only inside a top-level replication body, same coder, cache >= 1'),
 'C09-A': ('nested text -> flat: string values located by the opening quote b\' only', 'string values containing a quote character or ending in a double quote'),
 'C09-B': ('wiring state initialised once per message (same root cause family as C06-B)', 'second subset of an uncompressed message whose template leaves 204 / 221 in force at its end'),
 'C10-A': ('subset() takes a slice min..max when len(indices) == span', 'index collection with a repeat and a gap of the same size, e.g. [0, 0, 2]'),
 'C10-B': ('encoder writes a single-subset compressed message through the uncompressed path', 'extract one subset from a compressed message'),
}
sys.path.insert(0, HERE)
rows = []
for sid in sorted(os.listdir(os.path.join(HERE, 'seeded'))):
    mp = os.path.join(HERE, 'seeded', sid, 'meta.json')
    m = json.load(open(mp))
    if sid in TEXT:
        m['breaks'], m['needs'] = TEXT[sid]
    elif not m.get('breaks'):
        notes = os.path.join(HERE, 'seeded', sid, 'NOTES.md')
        m['breaks'] = 'see NOTES.md (section for mutant %s)' % sid[-1]
        m['needs'] = 'see NOTES.md (section for mutant %s)' % sid[-1]
    json.dump(m, open(mp, 'w'), indent=1)
    rows.append((sid, m.get('detected_by', {}), m.get('breaks', '')[:90]))
for sid, det, br in rows:
    print('%-6s %-40s %s' % (sid, ' '.join('%s=%s' % (k, v) for k, v in sorted(det.items())), br))
