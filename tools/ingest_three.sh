#!/bin/sh
# ingest_three.sh Cxx  -- third round: confirm + store /tmp/seed3-Cxx as Cxx-E / Cxx-F, keep the notes, drop the worktree
p=$1
/verif/tools/ingest_seeded.py --round3 /tmp/seed3-$p $p 2>&1 | grep -v WARNING
for x in E F; do [ -d /verif/seeded/$p-$x ] && cp /tmp/seed3-$p/NOTES.md /verif/seeded/$p-$x/NOTES.md; done
git -C /repo worktree remove --force /tmp/seed3-$p
