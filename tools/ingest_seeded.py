#!/venv/bin/python
"""Confirm and ingest seeded breaking changes delivered by sub-agents.

usage: ingest_seeded.py <worktree> <Cxx> <what it needs (text file or '-')>
For mutantA/mutantB in the worktree: in a scratch copy of /repo (under /tmp, removed
afterwards) confirm (1) the demo passes on the unchanged tree, (2) the patch applies,
(3) the demo fails with it, (4) the pinned test suite still passes with it.  Confirmed
changes are stored as /verif/seeded/<Cxx>-<A|B>/{patch.diff, demo.py, meta.json}.
"""
import json, os, shutil, subprocess, sys, tempfile
from concurrent.futures import ThreadPoolExecutor

HERE = os.path.dirname(os.path.dirname(os.path.abspath(__file__)))


def run(cmd, cwd, env=None):
    r = subprocess.run(cmd, cwd=cwd, env=env, stdout=subprocess.PIPE, stderr=subprocess.STDOUT)
    return r.returncode, r.stdout.decode(errors='replace')


STORE = {'A': 'A', 'B': 'B'}


def confirm(wt, pid, letter):
    store = STORE[letter]
    diff = os.path.join(wt, 'mutant%s.diff' % letter)
    demo = os.path.join(wt, 'demo%s.py' % letter)
    if not (os.path.exists(diff) and os.path.exists(demo)):
        return {'id': '%s-%s' % (pid, store), 'kept': False, 'why': 'files missing'}
    tmp = tempfile.mkdtemp(prefix='pbk-seed-')
    try:
        repo = os.path.join(tmp, 'repo')
        subprocess.check_call(['rsync', '-a', '--exclude', '.git', '--exclude', '__pycache__', '/repo/', repo + '/'])
        env = dict(os.environ, PYTHONPATH=repo, PYTHONDONTWRITEBYTECODE='1')
        shutil.copy(demo, os.path.join(repo, 'demo.py'))
        rc_clean, out_clean = run(['/venv/bin/python', 'demo.py'], repo, env)
        rc_p, out_p = run(['patch', '-p1', '-s', '-i', diff], repo)
        if rc_p != 0:
            return {'id': '%s-%s' % (pid, letter), 'kept': False, 'why': 'patch does not apply: ' + out_p[-300:]}
        rc_mut, out_mut = run(['/venv/bin/python', 'demo.py'], repo, env)
        rc_t, out_t = run(['/venv/bin/python', '-m', 'pytest', '-q', '-p', 'no:cacheprovider'], repo, env)
        tail = out_t.strip().splitlines()[-1] if out_t.strip() else ''
        ok = rc_clean == 0 and rc_mut != 0 and rc_t == 0
        res = {'id': '%s-%s' % (pid, store), 'kept': ok, 'demo_clean_rc': rc_clean, 'demo_mutant_rc': rc_mut,
               'pytest_rc': rc_t, 'pytest_tail': tail, 'demo_mutant_tail': out_mut.strip().splitlines()[-1:] }
        if ok:
            d = os.path.join(HERE, 'seeded', '%s-%s' % (pid, store))
            os.makedirs(d, exist_ok=True)
            shutil.copy(diff, os.path.join(d, 'patch.diff'))
            shutil.copy(demo, os.path.join(d, 'demo.py'))
            meta = {'property': pid, 'id': '%s-%s' % (pid, store), 'source': 'independent sub-agent given only the property text',
                    'confirmed': {'demo_on_unchanged_tree': 'exit 0', 'demo_with_change': 'exit %d' % rc_mut,
                                  'pinned_suite_with_change': tail},
                    'ran': ['python demo.py (clean, then patched) in a scratch copy of /repo', 'python -m pytest -q on the patched copy'],
                    'needs': '', 'breaks': '', 'detected_by': {}}
            mp = os.path.join(d, 'meta.json')
            if os.path.exists(mp):
                old = json.load(open(mp))
                for k in ('needs', 'breaks', 'detected_by'):
                    meta[k] = old.get(k, meta[k])
            json.dump(meta, open(mp, 'w'), indent=1)
        return res
    finally:
        shutil.rmtree(tmp, ignore_errors=True)


if __name__ == '__main__':
    jobs = []
    args = sys.argv[1:]
    if args and args[0] == '--round2':
        STORE.update({'A': 'C', 'B': 'D'})
        args = args[1:]
    elif args and args[0] == '--round3':
        STORE.update({'A': 'E', 'B': 'F'})
        args = args[1:]
    elif args and args[0] == '--letters':          # e.g. --letters GH for a fourth round
        STORE.update({'A': args[1][0], 'B': args[1][1]})
        args = args[2:]
    pairs = [(args[i], args[i + 1]) for i in range(0, len(args), 2)]
    with ThreadPoolExecutor(8) as ex:
        futs = [ex.submit(confirm, wt, pid, l) for wt, pid in pairs for l in 'AB']
        for f in futs:
            print(json.dumps(f.result()))
