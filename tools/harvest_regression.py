#!/venv/bin/python
"""Find regression inputs for a repaired defect: apply the revert of the repair (or any patch) to a scratch copy of /repo,
run the check at several seeds until it reports violations there, and keep those replay files that (a) fail on the patched
copy and (b) pass on the real tree as corpus/<Cxx>/<prefix>_<n>.json.
usage: harvest_regression.py <patch> <Cxx> <prefix> [seed ...]"""
import os, shutil, subprocess, sys, tempfile, glob
HERE = os.path.dirname(os.path.dirname(os.path.abspath(__file__)))
patch, pid, prefix = sys.argv[1:4]
seeds = sys.argv[4:] or ['1', '2', '3', '7', '11', '42']
tmp = tempfile.mkdtemp(prefix='pbk-harvest-')
try:
    repo = os.path.join(tmp, 'repo')
    subprocess.check_call(['rsync', '-a', '--exclude', '.git', '--exclude', '__pycache__', '/repo/', repo + '/'])
    if subprocess.call(['patch', '-p1', '-s', '-d', repo, '-i', os.path.abspath(patch)]) != 0:
        sys.exit('patch does not apply')
    kept = 0
    for seed in seeds:
        rdir = os.path.join(tmp, 'replays-' + seed)
        env = dict(os.environ, VERIF_REPO=repo, VERIF_EVIDENCE_DIR=os.path.join(tmp, 'ev'), VERIF_REPLAY_DIR=rdir,
                   VERIF_WORK_DIR=os.path.join(tmp, 'work'), VERIF_SEED=seed, PYTHONDONTWRITEBYTECODE='1')
        r = subprocess.run(['/venv/bin/python', os.path.join(HERE, 'run_check.py'), pid, '--tier', 'quick'], env=env,
                           stdout=subprocess.PIPE, stderr=subprocess.PIPE)
        print('seed', seed, 'exit', r.returncode)
        for f in sorted(glob.glob(os.path.join(rdir, pid, '*.json'))):
            env_real = dict(os.environ, PYTHONDONTWRITEBYTECODE='1')
            ok_real = subprocess.run(['/venv/bin/python', os.path.join(HERE, 'run_check.py'), pid, '--replay', f], env=env_real,
                                     stdout=subprocess.PIPE, stderr=subprocess.PIPE).returncode == 0
            bad_mut = subprocess.run(['/venv/bin/python', os.path.join(HERE, 'run_check.py'), pid, '--replay', f], env=env,
                                     stdout=subprocess.PIPE, stderr=subprocess.PIPE).returncode == 1
            print('  ', os.path.basename(f), 'passes on the real tree:', ok_real, ' fails on the patched copy:', bad_mut)
            if ok_real and bad_mut and kept < 3:
                kept += 1
                dst = os.path.join(HERE, 'corpus', pid, '%s_%d.json' % (prefix, kept))
                os.makedirs(os.path.dirname(dst), exist_ok=True)
                shutil.copy(f, dst)
                print('   kept as', dst)
        if kept:
            break
    sys.exit(0 if kept else 1)
finally:
    shutil.rmtree(tmp, ignore_errors=True)
