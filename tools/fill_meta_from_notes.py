#!/venv/bin/python
"""Fill the empty 'breaks' / 'needs' fields of seeded/<id>/meta.json from the sub-agent's NOTES.md kept beside it (rounds that
stored the notes instead of hand-written summaries)."""
import glob, json, os, re
HERE = os.path.dirname(os.path.dirname(os.path.abspath(__file__)))
n = 0
for d in sorted(glob.glob(os.path.join(HERE, 'seeded', '*'))):
    mp, notes = os.path.join(d, 'meta.json'), os.path.join(d, 'NOTES.md')
    if not (os.path.exists(mp) and os.path.exists(notes)):
        continue
    m = json.load(open(mp))
    if (m.get('breaks') and not m['breaks'].startswith('see NOTES')) and m.get('needs'):
        continue
    letter = os.path.basename(d)[-1]
    which = 'A' if letter in 'ACEGIKM' else 'B'
    t = open(notes).read()
    sec = next((p for p in re.split(r'\n##+ ', t) if re.match(r'(Mutant|Change|Patch)\s*' + which, p, re.I)), None)
    if sec is None:
        continue

    def grab(label):
        mm = re.search(r'\*\*(%s)[^*]*\*\*[:.]?\s*(.+?)(?=\n\s*\n|\n\* \*\*|\n\*\*|\n- \*\*|\Z)' % label, sec, re.S | re.I)
        return re.sub(r'\s+', ' ', mm.group(2)).strip() if mm else ''
    site = grab('File / site|Site|Where|File')
    what = grab('What was changed[^*]*|What it changes|What changed|Change / disguise|Disguise|Change')
    needs = grab('Needed to manifest|What is needed[^*]*|Needs|Trigger|What triggers it')
    if not (what or needs):
        mm = re.search(r'Change:\s*(.+?)(?=\n\s*\n)', sec, re.S)
        nn = re.search(r'(What is needed[^:]*|Needs[^:]*|Needed[^:]*):\s*(.+?)(?=\n\s*\n[A-Za-z]|\Z)', sec, re.S)
        what = re.sub(r'\s+', ' ', mm.group(1)).strip() if mm else ''
        needs = re.sub(r'\s+', ' ', nn.group(2)).strip() if nn else ''
    if what or site:
        m['breaks'] = ('[%s] ' % site[:160] if site else '') + what[:600]
    if needs:
        m['needs'] = needs[:600]
    json.dump(m, open(mp, 'w'), indent=1)
    n += 1
print('filled', n)
