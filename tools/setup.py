"""MANIFEST.setup_cmd: make sure the offline dependencies of the checks are importable."""
import os, subprocess, sys
HERE = os.path.dirname(os.path.dirname(os.path.abspath(__file__)))
WHEELS = '/opt/veriftools/wheels'
ok = True
try:
    import hypothesis  # noqa
except ImportError:
    ok = subprocess.call([sys.executable, '-m', 'pip', 'install', '--no-index', '--find-links', WHEELS, 'hypothesis']) == 0
deps = os.path.join(HERE, '.deps')
if not os.path.isdir(os.path.join(deps, 'atheris')):
    os.makedirs(deps, exist_ok=True)
    rc = subprocess.call([sys.executable, '-m', 'pip', 'install', '--no-index', '--find-links', WHEELS,
                          '--target', deps, 'atheris'])
    if rc != 0:
        print('atheris not installed (thorough-tier fuzz stages will be skipped)')
for d in ('evidence', 'replays', '.work'):
    os.makedirs(os.path.join(HERE, d), exist_ok=True)
print('setup ok' if ok else 'setup FAILED')
sys.exit(0 if ok else 1)
