#!/bin/sh
# ingest_one.sh Cxx  -- confirm + store the two seeded changes of /tmp/seed-Cxx, keep the notes, drop the worktree
p=$1
/verif/tools/ingest_seeded.py /tmp/seed-$p $p 2>&1 | grep -v WARNING
for x in A B; do [ -d /verif/seeded/$p-$x ] && cp /tmp/seed-$p/NOTES.md /verif/seeded/$p-$x/NOTES.md; done
git -C /repo worktree remove --force /tmp/seed-$p
