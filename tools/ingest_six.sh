#!/bin/sh
# ingest_six.sh Cxx  -- sixth round: confirm + store /tmp/seed6-Cxx as Cxx-K / Cxx-L, keep the notes, drop the worktree
p=$1
/verif/tools/ingest_seeded.py --letters KL /tmp/seed6-$p $p 2>&1 | grep -v WARNING
for x in K L; do [ -d /verif/seeded/$p-$x ] && cp /tmp/seed6-$p/NOTES.md /verif/seeded/$p-$x/NOTES.md; done
git -C /repo worktree remove --force /tmp/seed6-$p
