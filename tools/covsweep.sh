#!/bin/sh
# covsweep.sh [tier]  -- line coverage of /repo/pybufrkit reached by all registered checks together (diagnostic, not a check).
# Writes /tmp/pbk-cov/report.txt (per file: missing line numbers).  Uses coverage.py from /venv with fork / _exit support.
HERE=$(cd "$(dirname "$0")/.." && pwd)
tier=${1:-quick}
D=/tmp/pbk-cov; rm -rf $D; mkdir -p $D/data
cat > $D/rc <<EOF
[run]
source = /repo/pybufrkit
parallel = True
concurrency = multiprocessing
patch = _exit
sigterm = True
data_file = $D/data/.coverage
EOF
cd $HERE
for p in C01 C02 C03 C04 C05 C06 C07 C08 C09 C10 C11 C12 C13 C14 C15 C16 C17 C18 C19 C20; do
  /venv/bin/python -m coverage run --rcfile=$D/rc run_check.py $p --tier $tier 2>&1 | grep -E '^(ok|FAIL|VIOLATION)'
done
cd $D && /venv/bin/python -m coverage combine --rcfile=$D/rc -q >/dev/null 2>&1
/venv/bin/python -m coverage report --rcfile=$D/rc -m > $D/report.txt 2>/dev/null
tail -30 $D/report.txt | cut -c1-60
