#!/venv/bin/python
"""Single entry point: run_check.py <Cxx> [--tier quick|thorough] [--replay file]"""
from __future__ import print_function
import argparse
import importlib
import os
import sys
import traceback

os.environ.setdefault('PYTHONHASHSEED', '0')
os.environ.setdefault('PYTHONDONTWRITEBYTECODE', '1')
HERE = os.path.dirname(os.path.abspath(__file__))
if HERE not in sys.path:
    sys.path.insert(0, HERE)
DEPS = os.path.join(HERE, '.deps')
if os.path.isdir(DEPS) and DEPS not in sys.path:
    sys.path.append(DEPS)


def main():
    ap = argparse.ArgumentParser()
    ap.add_argument('property')
    ap.add_argument('--tier', default=os.environ.get('VERIF_TIER', 'quick'), choices=['quick', 'thorough'])
    ap.add_argument('--replay')
    ns = ap.parse_args()
    try:
        seed = int(os.environ.get('VERIF_SEED', '1'))
    except ValueError:
        seed = 1
    pid = ns.property.upper()
    try:
        mod = importlib.import_module('checks.' + pid.lower())
        if ns.replay:
            return mod.replay(ns.replay)
        return mod.run(ns.tier, seed)
    except SystemExit:
        raise
    except BaseException:
        print('HARNESS-ERROR property=%s %s' % (pid, traceback.format_exc()), file=sys.stderr)
        return 2


if __name__ == '__main__':
    sys.exit(main())
