"""C02 -- encoding produces the canonical FM-94 bit stream for the given values.

Generator: the C01 message generator; the encoder input is the flat JSON assembled by the
harness from the reference's values (Python object or JSON text; strings un-padded at
random).  Oracle: uncompressed -> byte identity with the reference-built message;
compressed -> the produced data section is read by the reference compressed reader and
must satisfy the validity predicate (min + diff == raw, all-ones diff <=> missing,
width 0 <=> all entries agree), everything outside section 4 identical."""
from vlib import runner, sut, std, encutil, fuzz
from vlib.runner import Outcome, Report
from gen import messages as gmsg
from refbufr import frame, codec, message as rmessage, IllFormed
from refbufr.bits import BitReader

PID = 'C02'
_ENC = None


def encoder():
    global _ENC
    if _ENC is None:
        _ENC = sut.Encoder()
    return _ENC


def check_compressed_layout(out, case, produced):
    """validity predicate on a compressed data section written by the encoder"""
    try:
        p = frame.parse(produced, 0, allow_trailing=False)
    except IllFormed as e:
        return out.fail('encoder output is not a well-framed message', error=str(e))
    ref = frame.parse(case.bytes, 0)
    for k in (1, 2, 3):
        if k in ref.offsets:
            a = produced[p.offsets[k]:p.offsets[k] + p.section_lengths[k]] if k in p.offsets else None
            b = case.bytes[ref.offsets[k]:ref.offsets[k] + ref.section_lengths[k]]
            if a != b:
                return out.fail('section %d differs from the independently built one' % k,
                                got=a.hex() if a else None, expected=b.hex())
    reader = BitReader(p.bytes, p.data_start_bit, p.data_end_bit)
    try:
        d = codec.read_data(case.tree, case.tables, case.nsub, True, reader)
    except IllFormed as e:
        return out.fail('compressed data section is not readable by the reference reader', error=str(e))
    got_fields = d.subsets[0].fields
    exp_fields = case.decoded.subsets[0].fields
    if len(got_fields) != len(exp_fields):
        return out.fail('compressed data section holds a different number of columns',
                        got=len(got_fields), expected=len(exp_fields))
    for k, (g, e) in enumerate(zip(got_fields, exp_fields)):
        if e.kind == 'const':
            continue
        if list(g.raws) != list(e.raws):
            return out.fail('compressed column does not reconstruct the given raw values', column=k,
                            label=e.label, kind=e.kind, nbits=e.nbits, comp=g.comp, expected_raws=list(e.raws))
        all_equal = all(r == e.raws[0] for r in e.raws)
        width = g.comp[1]
        if all_equal != (width == 0):
            return out.fail('difference width 0 must be used exactly when all subsets agree', column=k,
                            label=e.label, width=width, raws=list(e.raws))
        if width > 63:
            return out.fail('difference width above 63', column=k)
    rest = reader.end - reader.pos
    if rest >= 16 or (rest and reader.uint(rest) != 0):
        return out.fail('padding after the compressed data is not minimal zero padding', rest_bits=rest)
    return out


def poison_encoder(case):
    """make the shared encoder refuse a message in the middle of its data section; True when it did refuse"""
    import copy
    rows = encutil.flat_values(case)
    for i in range(case.nsub - 1, -1, -1):
        fs = case.decoded.fields_of(i)
        for k in range(len(fs) - 1, -1, -1):
            f = fs[k]
            if f.kind == 'num' and f.role == 'data' and f.nbits <= 32:
                rows = copy.deepcopy(rows)
                rows[i][k] = float(2 ** (f.nbits + 3) + abs(f.ref)) / (10.0 ** f.scale) * 4 + 10
                bad = rmessage.flat_json(case.meta, case.ids, rows)
                return not sut.call(encoder().process, bad).ok
    return False


def check_case(case):
    out = Outcome()
    feats = set(case.features)
    form = int(case.key()[:2], 16) % 5     # 0, 1: JSON text; 2, 3: Python object with text strings; 4: Python object whose
    use_text = form < 2                     # character values are byte strings, as the decoder and subset() hand them out
    unpad = int(case.key()[2:4], 16) % 2 == 0
    flat = encutil.flat_json_of_case(case, unpad=unpad, as_str=form != 4)
    feats.add('input_json_text' if use_text else 'input_python_object')
    if form == 4 and any(f.kind == 'str' for w in case.decoded.subsets for f in w.fields):
        feats.add('input_character_values_as_bytes')
    if case.compressed:
        cols = case.decoded.subsets[0].fields
        for f in cols:
            if f.kind in ('num', 'code') and len(f.raws) > 1:
                miss = [f.is_missing_raw(r) for r in f.raws]
                present = [r for r, m in zip(f.raws, miss) if not m]
                if any(miss) and present and min(present) == max(present):
                    feats.add('column_missing_next_to_equal')
                if all(miss):
                    feats.add('column_all_missing')
    out.classes = sorted(feats)
    out.nontrivial = len(case.ids) > 1 or case.nsub > 1
    arg = encutil.as_json_text(flat) if use_text else flat
    if int(case.key()[8:10], 16) % 4 == 0:
        # an encoder object is reused: a message that is refused half-way (a value that does not fit its field, after the
        # sections before it have been written) must leave nothing behind for the next one
        if poison_encoder(case):
            out.classes = sorted(set(out.classes) | {'encoder_reused_after_a_refused_message'})
    o = sut.call(encoder().process, arg)
    if not o.ok:
        return out.fail('encode raised %s@%s' % (o.exc_type, o.frame), error=o.msg)
    produced = o.value.serialized_bytes
    if int(case.key()[6:8], 16) % 8 == 0:
        # with debug logging switched on (--debug) the encoder reads its values from audited lists: the same bytes
        out.classes = sorted(set(out.classes) | {'also_with_debug_logging'})
        with sut.debug_logging():
            og = sut.call(encoder().process, arg)
        if not og.ok:
            return out.fail('debug logging on: encode raised %s@%s' % (og.exc_type, og.frame), error=og.msg)
        if og.value.serialized_bytes != produced:
            return out.fail('debug logging on: the encoder writes other bytes', n_got=len(og.value.serialized_bytes), n=len(produced))
    if not case.compressed:
        if produced != case.bytes:
            k = next((i for i, (a, b) in enumerate(zip(produced, case.bytes)) if a != b), min(len(produced), len(case.bytes)))
            return out.fail('uncompressed message is not byte-identical to the independently built one',
                            first_diff_at=k, n_got=len(produced), n_expected=len(case.bytes),
                            got=produced[max(0, k - 4):k + 8].hex(), expected=case.bytes[max(0, k - 4):k + 8].hex())
    else:
        check_compressed_layout(out, case, produced)
    return out


def gen(tier):
    opts = gmsg.GenOpts(tier)
    opts.extra_widths = False     # the reference bytes must be the canonical ones here
    opts.template.defs_in_rep = True
    return lambda ch: gmsg.gen_case(ch, opts)


# ---- coverage-guided stage: the same generator and oracle, decisions taken from fuzzer bytes (vlib.fuzz) ----
_fuzz_gen = gen('quick')


fuzz_case = fuzz.structured_target(_fuzz_gen, check_case)


def run(tier, seed):
    rep = Report(PID, tier, seed, 'exploration')
    rep.rule = ('the C01 template/value space (extra difference widths off); the flat JSON handed to the encoder is built '
                'by the harness from the reference values, alternately as Python object and as JSON text, strings '
                'un-padded on half of the cases.  Non-trivial = more than one descriptor or more than one subset; '
                'distinct by hash of (metadata, descriptors, raw matrix).')
    rep.assumptions = ['refbufr builds the canonical bytes; for compressed data only the validity predicate of the '
                       'statement is demanded (the encoder may choose any legal difference width)']
    rep.required_classes = ['compressed', 'uncompressed', 'edition2', 'edition3', 'edition4', '201', '203_applied', '205',
                            '207', '208', 'column_missing_next_to_equal', 'column_all_missing', 'input_json_text',
                            'input_python_object', 'input_character_values_as_bytes', 'section2', '204', '206', '221_skipped', '222_qa', '224255', '225255']
    std.replay_files(rep, PID, check_case, gmsg.Case.from_json)
    n = 5000 if tier == 'quick' else 120000
    runner.run_generated(rep, gen(tier), check_case, n, runner.tier_workers(tier),
                         shrink_s=20 if tier == 'quick' else 120)
    # the Table B of the version the message names: the same element (plain and under a marker operator) on two master
    # table versions that define it differently, encoded one after the other by the one encoder object, both orders
    from refbufr import tables as rtables
    vs = gmsg.QUICK_VERSIONS + [16, 37] if tier == 'quick' else rtables.available_master_versions()
    for tag, cases in gmsg.version_twin_runs(vs, 4 if tier == 'quick' else 6):
        for case in cases:
            out = check_case(case)
            rep.add_case(case.key(), True, ['same_element_in_two_table_versions'] +
                         (['same_element_under_marker_in_two_table_versions'] if tag.startswith('marker') else []), None)
            for clause, detail in out.failures:
                rep.add_failure('table versions: ' + clause, dict(detail, encoded_in_this_order=tag), case.to_json(),
                                stage='table versions')
    std.run_boundary(rep, tier, check_case)
    std.run_named(rep, gmsg.wide_field_cases(tier), check_case, 'wide fields', 'field_wider_than_53_bits')
    fuzz.run_structured(rep, 'checks.c02', _fuzz_gen, tier)
    return rep.finish()


def replay(path):
    return std.replay_main(PID, path, check_case, gmsg.Case.from_json)
