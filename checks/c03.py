"""C03 -- decode/encode round trip: quantisation bound, range refusal, canonical fixpoint.

(a) values: every numeric element of the pool under a random 201 / 202 / 207 context, real
    inputs on, around and beyond the representable grid (integers where the effective scale is
    0), missing values, strings of any length; uncompressed (refusal clause) and compressed
    (no silent alteration).  Oracle: exact rational arithmetic on the input.
(b) fixpoints: E(R(E(x))) == E(x) on generated messages; E(D(E(D(b)))) == E(D(b)) on
    generated non-canonical messages (surplus octets, non-minimal difference widths) and on
    the sample corpus."""
import hashlib
import json
from fractions import Fraction

from vlib import runner, sut, std, encutil, corpusio, fuzz
from vlib.runner import Outcome, Report, Reject
from gen import messages as gmsg, templates as gtemplates, pool as gpool
from refbufr import frame, message as rmessage, tree as rtree, codec, IllFormed, Unsupported
from refbufr.codec import GivenSource

PID = 'C03'
_ENC = {}
_DEC = {}


def encoder():
    if 'e' not in _ENC:
        _ENC['e'] = sut.Encoder()
    return _ENC['e']


_CENC = _CDEC = None


def compiled_encoder():
    global _CENC
    if _CENC is None:
        _CENC = sut.Encoder(compiled_template_cache_max=4)
    return _CENC


def compiled_decoder():
    global _CDEC
    if _CDEC is None:
        _CDEC = sut.Decoder(compiled_template_cache_max=4)
    return _CDEC


def decoder():
    if 'd' not in _DEC:
        _DEC['d'] = sut.Decoder()
    return _DEC['d']


# ---- (a) values ---------------------------------------------------------------------------------------
class ValueCase(object):
    def __init__(self, mv, ids, pos, inputs, compressed, edition=4, others=None):
        """ids: template; pos: index (among the value fields) of the field under test; inputs: one user value per subset
        for that field; others: raw values of the remaining fields (one list per subset)"""
        self.mv, self.ids, self.pos, self.inputs, self.compressed, self.edition = mv, ids, pos, inputs, compressed, edition
        self.others = others

    def key(self):
        return hashlib.sha1(repr((self.mv, self.ids, self.pos, self.inputs, self.compressed, self.edition)).encode()).hexdigest()[:20]

    def summary(self):
        return {'master_table_version': self.mv, 'descriptors': ['%06d' % i for i in self.ids], 'field': self.pos,
                'inputs': [repr(x) for x in self.inputs], 'compressed': self.compressed}

    def to_json(self):
        return {'kind': 'value', 'mv': self.mv, 'ids': self.ids, 'pos': self.pos, 'compressed': self.compressed, 'edition': self.edition,
                'inputs': [x if not isinstance(x, float) else {'float_hex': x.hex()} for x in self.inputs]}

    @staticmethod
    def from_json(d):
        ins = [float.fromhex(x['float_hex']) if isinstance(x, dict) else x for x in d['inputs']]
        return ValueCase(d['mv'], list(d['ids']), d['pos'], ins, d['compressed'], d.get('edition', 4))


def dry_fields(mv, ids):
    """the reference's view of the template: list of value fields (with effective width, scale, reference)"""
    pl = gpool.pool_for(mv)
    tree = rtree.parse(ids, pl.tables)
    n_leaves = 64
    src = GivenSource([[0] for _ in range(n_leaves)])

    class Zero(object):
        def leaf(self, walk, f):
            if f.kind == 'str':
                return [b' ' * (f.nbits // 8)] * walk.nsub
            return [0] * walk.nsub
    dec = codec.walk_all(tree, pl.tables, 1, False, lambda i: Zero())
    return [f for f in dec.subsets[0].fields if f.kind != 'const'], pl


def gen_value_case(ch):
    mv = ch.choice(gmsg.QUICK_VERSIONS)
    pl = gpool.pool_for(mv)
    kind = ch.weighted([(8, 'num'), (2, 'str')])
    pre = [ch.choice(pl.num_all)] if ch.bool(1, 3) else []
    post = [ch.choice(pl.num_all)] if ch.bool(1, 4) else []
    if kind == 'str':
        e = ch.choice(pl.strs)
        core = [e]
        if ch.bool(1, 3):
            core = [208000 + ch.int(1, 12), e, 208000]
    else:
        e = ch.choice(pl.num_all)
        el = pl.tables.B[e]
        ctx = ch.weighted([(3, 'none'), (3, '201'), (3, '202'), (2, '207'), (2, '201+202')])
        core = [e]
        if '201' in ctx:
            dw = ch.int(-(el.nbits - 1), 8)
            if dw != 0:
                core = [201000 + 128 + dw] + core + [201000]
        if '202' in ctx:
            ds = ch.choice([-3, -2, -1, 1, 2, 3])
            core = [202000 + 128 + ds] + core + [202000]
        if ctx == '207':
            core = [207000 + ch.int(1, 3)] + core + [207000]
    ids = pre + core + post
    try:
        fields, _ = dry_fields(mv, ids)
    except (IllFormed, Unsupported) as ex:
        raise Reject('template rejected by the reference: %s' % str(ex)[:40])
    pos = len(pre)
    f = fields[pos]
    compressed = ch.bool(1, 3)
    nsub = ch.int(2, 4) if compressed else 1
    inputs = []
    if f.kind == 'str':
        nbytes = f.nbits // 8
        if compressed and ch.bool(1, 6):
            # a character column that is missing in every subset
            return ValueCase(mv, ids, pos, [None] * nsub, compressed, ch.choice([4, 3]))
        for _ in range(nsub):
            k = ch.weighted([(3, 'short'), (2, 'exact'), (2, 'long'), (1, 'missing'), (1, 'empty')])
            if k == 'missing':
                inputs.append(None)
            elif k == 'empty':
                inputs.append('')
            else:
                n = {'short': ch.int(1, max(1, nbytes - 1)), 'exact': nbytes, 'long': nbytes + ch.int(1, 5)}[k]
                # (NUL octets and octet pairs that happen to be valid UTF-8 are ordinary latin-1 characters of the field)
                txt = ''.join(ch.choice('abcXYZ 09-\xe9\xff"\'\x00\x00\xc3\xbc') for _ in range(n))
                if set(txt[:nbytes]) == {'\x00'} and len(txt) >= nbytes:
                    txt = 'a' + txt[1:]        # a value that fills the field with NULs is outside the domain (DESIGN 10-2)
                inputs.append(txt)
        return ValueCase(mv, ids, pos, inputs, compressed, ch.choice([4, 3]))
    if f.nbits > 40 or f.nbits < 1:
        raise Reject('effective width outside 1..40 bits')
    top = (1 << f.nbits) - 1          # the all-ones raw value
    base_k = None
    for j in range(nsub):
        if compressed and j and base_k is not None and ch.bool(2, 3):
            # values that agree after rounding but not as numbers, next to a missing one
            k = base_k
        else:
            ks = [(2, -2), (3, -1), (3, 0), (2, 1), (3, top // 2), (3, top - 1), (4, top), (3, top + 1), (2, top + 2),
                  (4, ch.int(0, max(0, top - 1)))]
            if el.nbits < f.nbits:
                # a widened field: the all-ones pattern of the element's Table B width is an ordinary value here
                t = (1 << el.nbits) - 1
                ks += [(4, t), (1, t - 1), (1, t + 1)]
            k = ch.weighted(ks)
            base_k = k
        if ch.bool(1, 8) and f.nbits > 1:
            inputs.append(None)
            continue
        if f.scale == 0:
            inputs.append(k + f.ref)
            continue
        if f.scale < 0 and ch.bool(1, 2):
            # a negative effective scale: whole numbers, handed over as Python ints, on and off the (coarse) grid
            step = 10 ** (-f.scale)
            inputs.append((k + f.ref) * step + ch.weighted([(2, 0), (2, ch.int(-(step - 1), step - 1)), (1, step // 2 - 1), (1, -(step // 2 - 1)),
                                                           (1, step // 2 + 1), (1, 8 * step // 10)]))
            continue
        delta = ch.choice([Fraction(0), Fraction(1, 4), Fraction(-1, 4), Fraction(49, 100), Fraction(-49, 100),
                           Fraction(51, 100), Fraction(-51, 100), Fraction(1, 10), Fraction(-3, 10)])
        x = float((Fraction(k) + delta + f.ref) / (Fraction(10) ** f.scale))
        inputs.append(x)
    return ValueCase(mv, ids, pos, inputs, compressed, ch.choice([4, 3]))


def check_value_case(vc):
    out = Outcome()
    try:
        fields, pl = dry_fields(vc.mv, vc.ids)
    except (IllFormed, Unsupported) as ex:
        raise Reject('template rejected by the reference: %s' % str(ex)[:40])
    f = fields[vc.pos]
    nsub = len(vc.inputs)
    meta = frame.default_meta(vc.edition)
    meta['master_table_version'] = vc.mv
    meta['n_subsets'] = nsub
    meta['is_compressed'] = vc.compressed
    rows = []
    for j in range(nsub):
        row = []
        for k, g in enumerate(fields):
            if k == vc.pos:
                row.append(vc.inputs[j])
            elif g.kind == 'str':
                row.append('x')
            else:
                # a representable filler: raw 1
                v = Fraction(1 + g.ref) / (Fraction(10) ** g.scale)
                row.append(int(v) if g.scale == 0 else float(v))
        rows.append(row)
    flat = rmessage.flat_json(meta, vc.ids, rows)
    out.classes = ['value_%s' % f.kind, 'compressed' if vc.compressed else 'uncompressed']
    # classification of every input by exact arithmetic
    verdicts = []
    for x in vc.inputs:
        if f.kind == 'str':
            verdicts.append(('str', None))
            continue
        if x is None:
            verdicts.append(('missing', None))
            continue
        s = Fraction(x) * (Fraction(10) ** f.scale) - f.ref
        top = (1 << f.nbits) - 1
        if s < Fraction(-1, 2) - Fraction(1, 1000) or s > top + Fraction(1, 2) + Fraction(1, 1000):
            verdicts.append(('out', s))
        elif s < Fraction(-1, 2) + Fraction(1, 1000) or s > top + Fraction(1, 2) - Fraction(1, 1000):
            verdicts.append(('edge', s))
        else:
            verdicts.append(('in', s))
    kinds = set(v[0] for v in verdicts)
    for k in kinds:
        out.classes.append('input_' + k)
    near = any(v[0] in ('in', 'out', 'edge') and (v[1] < 1 or v[1] > (1 << f.nbits) - 3) for v in verdicts)
    half = any(v[0] == 'in' and abs((v[1] % 1) - Fraction(1, 2)) <= Fraction(2, 100) for v in verdicts)
    out.nontrivial = near or half or 'missing' in kinds or 'str' in kinds
    if half:
        out.classes.append('near_half_way')
    if near:
        out.classes.append('near_range_boundary')
    o = sut.call(encoder().process, flat)
    if not o.ok:
        out.classes.append('encoder_refused')
        if 'out' not in kinds and 'edge' not in kinds:
            # a refusal is always allowed by the statement, but refusing representable input is not what the
            # encoder is for: counted, and reported only when every input is well inside the range
            inside = all(v[0] in ('missing', 'str') or (v[0] == 'in' and 0 <= v[1] <= (1 << f.nbits) - 2) for v in verdicts)
            if inside and f.kind != 'str':
                out.fail('the encoder refuses values that are representable', inputs=[repr(x) for x in vc.inputs], error=o.msg,
                         frame=o.frame, field={'nbits': f.nbits, 'scale': f.scale, 'ref': f.ref})
        return out
    b = o.value.serialized_bytes
    if not vc.compressed and 'out' in kinds:
        out.fail('a value whose scaled integer does not fit the field was encoded (wrapped or clipped), not refused',
                 inputs=[repr(x) for x in vc.inputs], scaled=[str(v[1]) for v in verdicts],
                 field={'nbits': f.nbits, 'scale': f.scale, 'ref': f.ref})
    od = sut.call(decoder().process, b)
    if not od.ok:
        if vc.compressed and 'out' in kinds:
            # compressed data with an unrepresentable value: no refusal is promised; an output that fails to
            # decode is loud, not a silent alteration (e.g. the column minimum lands on the all-ones pattern)
            out.classes.append('compressed_unrepresentable_gives_undecodable_output')
            return out
        return out.fail('the encoder\'s output does not decode: %s@%s' % (od.exc_type, od.frame), error=od.msg,
                        compressed=vc.compressed, verdicts=[v[0] for v in verdicts],
                        all_ones_next_to_missing=(vc.compressed and f.kind != 'str' and 'missing' in kinds and
                                                  any(v[0] == 'in' and abs(v[1] - ((1 << f.nbits) - 1)) <= Fraction(1, 2) for v in verdicts)
                                                  and len(set(round(v[1]) for v in verdicts if v[0] == 'in')) == 1))
    ob = sut.observe(od.value)
    labels = ob['labels'][0]
    # position of the field under test among the decoded entries (operators add constant entries in front)
    idxs = [i for i, l in enumerate(labels) if not (l[0] == '2' and l[1:3] in ('22', '23', '24', '25', '32', '35', '36', '37'))]
    for j in range(nsub):
        vals = ob['values'][j]
        if len(vals) != len(fields):
            return out.fail('decoded list has another length than the template', got=len(vals), expected=len(fields))
        y = vals[vc.pos]
        x = vc.inputs[j]
        kind, s = verdicts[j]
        if f.kind == 'str':
            nbytes = f.nbits // 8
            if x is None:
                want = b'\xff' * nbytes
            else:
                want = x.encode('latin-1')[:nbytes].ljust(nbytes, b' ')
            if y != want:
                out.fail('a string does not read back padded / truncated to the field width', input=x, got=y, expected=want)
            continue
        if x is None:
            if y is not None:
                out.fail('missing does not read back as missing', got=y, field={'nbits': f.nbits, 'scale': f.scale, 'ref': f.ref})
            continue
        if kind == 'out':
            if vc.compressed and y is not None:
                # compressed data: no refusal is promised, but then the value must not come back altered silently
                unit = Fraction(1) / (Fraction(10) ** f.scale)
                if abs(Fraction(y) - Fraction(x)) > unit / 2 + abs(Fraction(x)) * Fraction(1, 10 ** 12):
                    out.fail('compressed: an unrepresentable value was silently altered', input=x, got=y,
                             field={'nbits': f.nbits, 'scale': f.scale, 'ref': f.ref})
            elif vc.compressed and y is None:
                out.fail('compressed: an unrepresentable value silently became missing', input=x,
                         field={'nbits': f.nbits, 'scale': f.scale, 'ref': f.ref})
            continue
        top = (1 << f.nbits) - 1
        if y is None:
            r = s.numerator // s.denominator       # floor
            if f.nbits > 1 and (abs(s - top) <= Fraction(1, 2) + Fraction(1, 1000)):
                out.classes.append('coincides_with_all_ones')
                continue
            out.fail('a value silently became missing', input=x, scaled=str(s), field={'nbits': f.nbits, 'scale': f.scale, 'ref': f.ref})
            continue
        unit = Fraction(1) / (Fraction(10) ** f.scale)
        err = abs(Fraction(y) - Fraction(x))
        tol = unit / 2 + abs(Fraction(x)) * Fraction(1, 10 ** 12) + unit * Fraction(1, 10 ** 6)
        if err > tol:
            out.fail('a value reads back more than half a unit of the last scaled digit away', input=x, got=y,
                     unit=float(unit), error=float(err), field={'nbits': f.nbits, 'scale': f.scale, 'ref': f.ref})
        elif f.scale == 0 and (type(y) is not int or y != x):
            out.fail('an integer value of a scale-0 field does not read back exactly', input=x, got=y)
    # a decoded value must read back exactly
    fj = sut.norm_json(sut.FlatJsonRenderer().render(od.value))
    o2 = sut.call(encoder().process, fj)
    if not o2.ok:
        out.fail('re-encoding decoded values raised %s@%s' % (o2.exc_type, o2.frame), error=o2.msg)
    else:
        od2 = sut.call(decoder().process, o2.value.serialized_bytes)
        if not od2.ok:
            out.fail('re-encoded decoded values do not decode: %s' % od2.exc_type, error=od2.msg)
        else:
            v1, v2 = ob['values'], sut.observe(od2.value)['values']
            if v1 != v2 or [[type(x) for x in r] for r in v1] != [[type(x) for x in r] for r in v2]:
                out.fail('values that came from a decoder do not read back exactly', first=v1, second=v2)
    out.classes = sorted(set(out.classes))
    return out


def _first_altered(v1, v2):
    """first (subset, index, a, b) where two decoded value matrices differ by more than blank padding of a string"""
    if len(v1) != len(v2):
        return (None, None, len(v1), len(v2))
    for i, (r1, r2) in enumerate(zip(v1, v2)):
        if len(r1) != len(r2):
            return (i, None, len(r1), len(r2))
        for k, (a, b) in enumerate(zip(r1, r2)):
            if a == b:
                continue
            if isinstance(a, bytes) and isinstance(b, bytes) and len(a) < len(b) and b == a.ljust(len(b), b' '):
                continue
            return (i, k, a, b)
    return None


# ---- (b) fixpoints -------------------------------------------------------------------------------------------
def fixpoint_of_bytes(out, b, what):
    """E(D(E(D(b)))) == E(D(b)); returns the first encoding or None"""
    o = sut.call(decoder().process, b)
    if not o.ok:
        raise Reject('%s: does not decode' % what)
    fj1 = sut.norm_json(sut.FlatJsonRenderer().render(o.value))
    e1 = sut.call(encoder().process, fj1)
    if not e1.ok:
        if isinstance(e1.exc, (IOError, OSError)):
            raise Reject('encoder refuses: table not bundled')
        out.classes.append('encoder_refused')
        return None
    b1 = e1.value.serialized_bytes
    o2 = sut.call(decoder().process, b1)
    if not o2.ok:
        out.fail('%s: the re-encoded message does not decode: %s@%s' % (what, o2.exc_type, o2.frame), error=o2.msg)
        return None
    v_first, v_second = sut.observe(o.value)['values'], sut.observe(o2.value)['values']
    if v_second != v_first and sut.norm_json(v_second) != sut.norm_json(v_first):
        # a foreign compressed character column whose increments are narrower than the field decodes to the short
        # string (DESIGN 10-2); the statement has strings "read back padded to the field width", so a string may
        # come back right-padded with blanks -- anything else is an alteration
        diff = _first_altered(v_first, v_second)
        if diff is not None:
            out.fail('%s: decode -> encode -> decode changes the values' % what, subset=diff[0], index=diff[1],
                     first=diff[2], second=diff[3])
        else:
            out.classes.append('short_foreign_string_comes_back_padded')
    fj2 = sut.norm_json(sut.FlatJsonRenderer().render(o2.value))
    e2 = sut.call(encoder().process, fj2)
    if not e2.ok:
        out.fail('%s: the second encode raised %s@%s' % (what, e2.exc_type, e2.frame), error=e2.msg)
        return None
    if e2.value.serialized_bytes != b1:
        out.fail('%s: a second decode/encode round trip is not byte-identical to the first' % what,
                 n_first=len(b1), n_second=len(e2.value.serialized_bytes))
    return b1


class FixCase(object):
    def __init__(self, case, surplus):
        self.case, self.surplus = case, surplus
        self.bytes = frame.build(case.meta, case.ids, case.data_bits, surplus=surplus)[0] if surplus else case.bytes

    def key(self):
        return hashlib.sha1(self.bytes).hexdigest()[:20]

    def summary(self):
        s = self.case.summary()
        s['surplus_octets'] = self.surplus
        return s

    def to_json(self):
        return {'kind': 'fix', 'case': self.case.to_json(), 'surplus': {str(k): v for k, v in self.surplus.items()}}

    @staticmethod
    def from_json(d):
        return FixCase(gmsg.Case.from_json(d['case']), {int(k): v for k, v in d['surplus'].items()})


def gen_fix(ch, opts):
    case = gmsg.gen_case(ch, opts)
    surplus = {}
    if ch.bool(1, 3):
        for k in (1, 4):
            if ch.bool():
                surplus[k] = ch.choice([1, 2, 3])
    return FixCase(case, surplus)


def check_fix(fc):
    out = Outcome()
    case = fc.case
    noncanon = bool(fc.surplus) or bool(case.extra_widths and any(case.extra_widths))
    out.nontrivial = noncanon
    out.classes = ['fixpoint', 'compressed' if case.compressed else 'uncompressed'] + (['non_canonical_input'] if noncanon else [])
    # E(R(E(x))) == E(x)
    x = encutil.flat_json_of_case(case)
    e0 = sut.call(encoder().process, x)
    if not e0.ok:
        return out.fail('encoding the reference values raised %s@%s' % (e0.exc_type, e0.frame), error=e0.msg)
    r = sut.call(lambda: sut.norm_json(sut.FlatJsonRenderer().render(e0.value)))
    if not r.ok:
        return out.fail('rendering the encoder\'s message raised %s@%s' % (r.exc_type, r.frame), error=r.msg)
    e1 = sut.call(encoder().process, r.value)
    if not e1.ok:
        out.fail('re-encoding the rendering of an encoded message raised %s@%s' % (e1.exc_type, e1.frame), error=e1.msg)
    elif e1.value.serialized_bytes != e0.value.serialized_bytes:
        out.fail('re-encoding the rendering of a message that the encoder produced does not give the identical bytes',
                 n_first=len(e0.value.serialized_bytes), n_second=len(e1.value.serialized_bytes))
    fixpoint_of_bytes(out, fc.bytes, 'foreign message')
    # the round trip with template compilation on one side only (a documented constructor argument of both coders): what a
    # compiling encoder writes a plain decoder must read back as the given values, and the other way round.  Only for
    # templates in the domain of compilation (operators opened and closed inside one replication scope, C08).
    if not out.failures and not case.decoded.unbalanced():
        out.classes.append('round_trip_with_compilation_on_one_side')
        v0 = sut.call(lambda: sut.observe(decoder().process(e0.value.serialized_bytes))['values'])
        if not v0.ok:
            return out
        ec = sut.call(compiled_encoder().process, x)
        if not ec.ok:
            out.fail('a template-compiling encoder refuses values that the plain encoder accepts: %s@%s' % (ec.exc_type, ec.frame),
                     error=ec.msg)
        else:
            vc = sut.call(lambda: sut.observe(decoder().process(ec.value.serialized_bytes))['values'])
            if not vc.ok:
                out.fail('what a template-compiling encoder wrote does not decode: %s@%s' % (vc.exc_type, vc.frame), error=vc.msg)
            elif sut.norm_json(vc.value) != sut.norm_json(v0.value):
                d = _first_altered(v0.value, vc.value)
                out.fail('values written by a template-compiling encoder read back altered (plain decoder)',
                         subset=d and d[0], index=d and d[1], plain=d and d[2], compiled=d and d[3])
        vd = sut.call(lambda: sut.observe(compiled_decoder().process(e0.value.serialized_bytes))['values'])
        if not vd.ok:
            out.fail('a template-compiling decoder cannot read what the plain encoder wrote: %s@%s' % (vd.exc_type, vd.frame),
                     error=vd.msg)
        elif sut.norm_json(vd.value) != sut.norm_json(v0.value):
            d = _first_altered(v0.value, vd.value)
            out.fail('values written by the plain encoder read back altered (template-compiling decoder)',
                     subset=d and d[0], index=d and d[1], plain=d and d[2], compiled=d and d[3])
    return out


def check_corpus(item):
    f, j, b = item
    from checks.c01 import CorpusCase
    cc = CorpusCase(f, j, b)
    out = Outcome()
    out.nontrivial = True
    out.classes = ['corpus']
    try:
        fixpoint_of_bytes(out, b, 'corpus')
    except Reject as e:
        return cc, None, str(e)
    return cc, out, None


def _k4(clause, f):
    """K4: compressed column whose present values all coincide with the all-ones pattern, next to a missing entry"""
    return ("the encoder's output does not decode" in clause and 'nbits_diff must be zero' in str(f['detail'].get('error'))
            and f['detail'].get('all_ones_next_to_missing') is True)


SIGNATURES = {'compressed_all_ones_value_next_to_missing': _k4}


class _CorpusReplay(object):
    def __init__(self, d):
        self.item = (d['corpus_file'], d['message_index'], bytes.fromhex(d['bytes_hex']))

    def key(self):
        return '%s#%d' % self.item[:2]


class _Refval203(object):
    def __init__(self, d):
        self.d = d

    def key(self):
        return '203:%r' % sorted(self.d.items())


def load_case(d):
    if d.get('kind') == '203':
        return _Refval203(d)
    if d.get('kind') == 'value':
        return ValueCase.from_json(d)
    if 'corpus_file' in d:
        return _CorpusReplay(d)
    return FixCase.from_json(d)


def check_any(case):
    if isinstance(case, _Refval203):
        rep = Report(PID, 'quick', 0)
        check_203_refvals(rep)
        out = Outcome()
        for clause, f in rep.failures.items():
            out.fail(clause, **(f['detail'] if isinstance(f['detail'], dict) else {}))
        return out
    if isinstance(case, _CorpusReplay):
        cc, out, excl = check_corpus(case.item)
        if out is None:
            raise Reject(excl)
        out.failures = [('corpus: ' + c, d) for c, d in out.failures]
        return out
    return check_value_case(case) if isinstance(case, ValueCase) else check_fix(case)


# ---- new reference values (203YYY): sign and YYY-1 magnitude bits ------------------------------------------------
def check_203_refvals(rep):
    """203YYY E 203255 E 203000 with the new reference value on, just inside and just outside what YYY bits hold as sign +
    magnitude: inside -> written and read back exactly (and the element's value against it); outside -> refused, never
    wrapped into the sign bit or truncated.  Uncompressed and compressed.  Deterministic."""
    from refbufr import frame as rframe, tables as rtables2
    B = rtables2.load_for(0, 0, 0, 33, 0).B
    for e in (7001, 12101, 10004):
        el = B[e]
        for y in (2, 3, 8, 12, 16, 24):
            m = 1 << (y - 1)
            for r in (m - 1, -(m - 1), m, -m, 2 * m - 1, -(2 * m - 1), 2 * m, 0, -1):
                for compressed in (False, True):
                    n = 2 if compressed else 1
                    meta = dict(rframe.default_meta(4))
                    meta.update({'master_table_version': 33, 'n_subsets': n, 'is_compressed': compressed})
                    v = Fraction(5 + r) / Fraction(10) ** el.scale
                    v = int(v) if el.scale <= 0 and v.denominator == 1 else float(v)
                    flat = rmessage.flat_json(meta, [203000 + y, e, 203255, e, 203000], [[r, v] for _ in range(n)])
                    o = sut.call(encoder().process, flat)
                    fits = abs(r) <= m - 1
                    key = '203:%d:%d:%d:%s' % (e, y, r, compressed)
                    rep.add_case(key, True, ['new_reference_value_' + ('inside' if fits else 'outside')], None)
                    case_json = {'kind': '203', 'element': e, 'yyy': y, 'new_reference_value': r, 'compressed': compressed}
                    if not fits:
                        if o.ok:
                            rep.add_failure('a new reference value that does not fit the sign + magnitude bits of 203YYY is not refused',
                                            case_json, case_json, stage='new reference values')
                        continue
                    if not o.ok:
                        rep.add_failure('a new reference value that fits 203YYY is refused: %s@%s' % (o.exc_type, o.frame),
                                        dict(case_json, error=o.msg), case_json, stage='new reference values')
                        continue
                    d = sut.call(lambda: sut.observe(decoder().process(o.value.serialized_bytes))['values'])
                    want = [[r, v] for _ in range(n)]
                    if not d.ok or any(a[0] != w[0] or abs(a[1] - w[1]) > 1e-9 * max(1, abs(w[1])) for a, w in zip(d.value, want)):
                        rep.add_failure('a new reference value (and the value coded against it) does not read back', dict(case_json, got=d.value if d.ok else d.msg, expected=want),
                                        case_json, stage='new reference values')


# ---- coverage-guided stage: the same generator and oracle, decisions taken from fuzzer bytes (vlib.fuzz) ----
def _fuzz_gen(ch):
    return gen_value_case(ch)


fuzz_case = fuzz.structured_target(_fuzz_gen, check_value_case)


def run(tier, seed):
    rep = Report(PID, tier, seed, 'exploration')
    rep.rule = ('(a) one numeric element of the pool (width 1..40 after modification) alone or under 201 / 202 / 207 / 201+202, in a template with '
                'optional neighbours, 1 subset uncompressed or 2..4 compressed; inputs = grid point k in {-2,-1,0,1,mid,max-1,max(all ones),'
                'max+1,max+2,uniform} + delta in {0,+-0.1..+-0.51} units (integers when the effective scale is 0), missing, and for compressed '
                'columns values that agree only after rounding next to a missing one; strings shorter / equal / longer than the field, empty, '
                'missing, under 208.  Oracle: exact rational arithmetic.  (b) generated messages incl. non-canonical ones (surplus octets, '
                'non-minimal difference widths) and sample-corpus messages: E(R(E(x))) == E(x) and E(D(E(D(b)))) == E(D(b)).  Non-trivial = '
                'an input within one unit of a range boundary or within 0.02 unit of a half-way point, a missing or string input, or a '
                'non-canonical message.')
    rep.assumptions = ['the half-unit bound carries a relative tolerance of 1e-12 of |x| + 1e-6 unit for binary floating point',
                       '"clearly unrepresentable" = scaled value more than 0.001 beyond -1/2 or 2^n-1+1/2',
                       'a refusal is always acceptable; refusing inputs well inside the range is reported separately']
    workers = runner.tier_workers(tier)
    std.replay_files(rep, PID, check_any, load_case)
    n = 8000 if tier == 'quick' else 300000
    runner.run_generated(rep, gen_value_case, check_value_case, n, workers, stage='values')
    check_203_refvals(rep)
    opts = gmsg.GenOpts(tier)
    opts.template = gtemplates.Opts(max_ids=14 if tier == 'quick' else 30)
    opts.max_subsets = 3
    n = 1200 if tier == 'quick' else 40000
    runner.run_generated(rep, lambda ch: gen_fix(ch, opts), check_fix, n, workers, stage='fixpoints')
    stride = 25 if tier == 'quick' else 1
    items = corpusio.messages(stride=stride, offset=seed)
    res = runner.run_enumerated(items, check_corpus, workers, chunk=2)
    std.add_results(rep, res, 'corpus')
    rep.required_classes = ['input_out', 'input_in', 'input_missing', 'input_str', 'near_half_way', 'near_range_boundary',
                            'coincides_with_all_ones', 'compressed', 'uncompressed', 'non_canonical_input', 'corpus', 'encoder_refused']
    fuzz.run_structured(rep, 'checks.c03', _fuzz_gen, tier)
    return rep.finish(SIGNATURES)


def replay(path):
    with open(path) as f:
        d = json.load(f)
    if 'corpus_file' in d['case']:
        c = d['case']
        cc, out, excl = check_corpus((c['corpus_file'], c['message_index'], bytes.fromhex(c['bytes_hex'])))
        fails = out.failures if out else []
        for clause, detail in fails:
            print('VIOLATION property=%s replay=%s' % (PID, path))
            print('  clause: %s detail: %s' % (clause, json.dumps(runner.jsonable(detail))[:600]))
        if not fails:
            print('replay %s: property holds' % path)
        return 1 if fails else 0
    return std.replay_main(PID, path, check_any, load_case)
