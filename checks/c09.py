"""C09 -- all four output formats carry the same data and convert back to it.

Generator: the C01/C07 message generator (attributes on elements and on replication factors,
chained attributes, 221, zero-count replications, strings with quotes / blanks / 8-bit bytes,
flag tables) + the sample corpus.  Oracle: the flat JSON rendering (anchored to the reference
values), conversions of the three other renderings back to it, byte-identity of the encodings,
and an independent traversal of the nested JSON."""
import hashlib
import json
import os

from vlib import runner, sut, std, cli, corpusio, fuzz
from vlib.compare import first_value_diff
from vlib.runner import Outcome, Report, Reject
from gen import messages as gmsg, templates as gtemplates
from refbufr import message as rmessage, IllFormed, Unsupported

PID = 'C09'
_DEC = {}
_ENC = {}


def decoder():
    if 'd' not in _DEC:
        _DEC['d'] = sut.Decoder()
    return _DEC['d']


def encoder():
    if 'e' not in _ENC:
        _ENC['e'] = sut.Encoder()
    return _ENC['e']


def norm(x):
    return sut.norm_json(x)


def first_json_diff(a, b, path=''):
    if type(a) is not type(b) and not (isinstance(a, (int, float)) and isinstance(b, (int, float)) and
                                       not isinstance(a, bool) and not isinstance(b, bool) and a == b and type(a) is type(b)):
        return path, a, b
    if isinstance(a, list):
        if len(a) != len(b):
            return path + '[len]', len(a), len(b)
        for i, (x, y) in enumerate(zip(a, b)):
            d = first_json_diff(x, y, '%s[%d]' % (path, i))
            if d:
                return d
        return None
    if isinstance(a, dict):
        if sorted(a) != sorted(b):
            return path + '{keys}', sorted(a), sorted(b)
        for k in a:
            d = first_json_diff(a[k], b[k], '%s.%s' % (path, k))
            if d:
                return d
        return None
    return None if a == b else (path, a, b)


def nested_flat_order(template_data):
    """independent traversal of the nested JSON of the data section -> per subset the flat value list"""
    subsets = []
    counts = []

    def emit(out, p, cnt):
        for a in p.get('attributes', []) or []:
            if a.get('virtual'):
                cnt['virtual'] += 1
                continue
            emit(out, a, cnt)
        out.append(p['value'])
        cnt['values'] += 1

    def walk(out, members, cnt):
        for p in members:
            if 'value' in p:
                emit(out, p, cnt)
            else:
                if 'factor' in p:
                    emit(out, p['factor'], cnt)
                if 'members' in p:
                    if p['id'].startswith('1'):
                        for rep in p['members']:
                            walk(out, rep, cnt)
                    else:
                        walk(out, p['members'], cnt)
    for sub in template_data:
        out = []
        cnt = {'values': 0, 'virtual': 0}
        walk(out, sub, cnt)
        subsets.append(out)
        counts.append(cnt)
    return subsets, counts


def template_data_of(rendered, key_is_name=True):
    for sec in rendered:
        for par in sec:
            if isinstance(par, dict) and par.get('name') == 'template_data':
                return par['value']
    return None


def check_message(out, b, ref_values=None, what='generated'):
    o = sut.call(decoder().process, b)
    if not o.ok:
        return out.fail('%s: message does not decode: %s@%s' % (what, o.exc_type, o.frame), error=o.msg)
    m = o.value
    r = {}
    for name, cls in (('flat json', sut.FlatJsonRenderer), ('nested json', sut.NestedJsonRenderer),
                      ('flat text', sut.FlatTextRenderer), ('nested text', sut.NestedTextRenderer)):
        oo = sut.call(cls().render, m)
        if not oo.ok:
            return out.fail('%s: rendering as %s raised %s@%s' % (what, name, oo.exc_type, oo.frame), error=oo.msg)
        r[name] = oo.value
    fj = norm(r['flat json'])
    # anchor: the flat JSON carries the decoded values unchanged (and those are the reference values)
    flat_vals = fj[-2][-1]
    obs = sut.observe(m)
    if norm(obs['values']) != flat_vals:
        out.fail('%s: flat JSON does not carry the decoded values' % what)
    if ref_values is not None:
        for i in range(len(ref_values)):
            d = first_value_diff(obs['values'][i], ref_values[i])
            if d is not None:
                out.fail('%s: decoded values differ from the reference' % what, subset=i, index=d[0])
                break
    conv = {}
    for name, fn, src in (('nested json', sut.pbk_utils.nested_json_to_flat_json, norm(r['nested json'])),
                          ('flat text', sut.pbk_utils.flat_text_to_flat_json, r['flat text']),
                          ('nested text', sut.pbk_utils.nested_text_to_flat_json, r['nested text'])):
        oo = sut.call(fn, src)
        if not oo.ok:
            out.fail('%s: converting the %s rendering back to flat JSON raised %s@%s' % (what, name, oo.exc_type, oo.frame),
                     error=oo.msg)
            continue
        conv[name] = oo.value
        got = norm(oo.value)
        d = first_json_diff(got, fj)
        if d is not None:
            out.fail('%s: the %s rendering converted back is not the flat JSON' % (what, name), at=d[0], got=d[1], expected=d[2])
    # the same bytes from any of the four formats
    oe = sut.call(encoder().process, fj)
    if not oe.ok:
        if isinstance(oe.exc, (IOError, OSError)):
            raise Reject('encoder refuses: local table not bundled')
        out.fail('%s: encoding the flat JSON raised %s@%s' % (what, oe.exc_type, oe.frame), error=oe.msg)
    else:
        base = oe.value.serialized_bytes
        o2 = sut.call(encoder().process, json.dumps(r['flat json'], **sut.pbk_utils.JSON_DUMPS_KWARGS))
        if not o2.ok or o2.value.serialized_bytes != base:
            out.fail('%s: encoding the flat JSON text gives other bytes than the object' % what)
        for name, v in conv.items():
            o3 = sut.call(encoder().process, v)
            if not o3.ok:
                out.fail('%s: encoding from the %s rendering raised %s@%s' % (what, name, o3.exc_type, o3.frame), error=o3.msg)
            elif o3.value.serialized_bytes != base:
                out.fail('%s: encoding from the %s rendering gives other bytes' % (what, name), n_got=len(o3.value.serialized_bytes),
                         n_expected=len(base))
    # hierarchical view: every decoded value exactly once, flat order recoverable
    nj = norm(r['nested json'])
    td = template_data_of(nj)
    if td is None:
        out.fail('%s: nested JSON has no template_data' % what)
    else:
        subs, counts = nested_flat_order(td)
        for i in range(len(flat_vals)):
            if i >= len(subs) or subs[i] != flat_vals[i]:
                got = subs[i] if i < len(subs) else None
                k = None
                if got is not None:
                    k = next((j for j, (x, y) in enumerate(zip(got, flat_vals[i])) if x != y), min(len(got), len(flat_vals[i])))
                out.fail('%s: the hierarchical view does not hold every decoded value exactly once in recoverable order' % what,
                         subset=i, index=k, n_in_view=len(got) if got is not None else None, n_flat=len(flat_vals[i]))
                break
    return r


def check_case(case):
    out = Outcome()
    feats = set(case.features)
    out.classes = sorted(f for f in feats if f in ('204', '204_nested', '221_skipped', 'zero_rep', 'bitmap', 'delayed_rep', 'fixed_rep',
                                                   'nested_rep', '222_qa', '223255', '224255', '225255', '232255', '205', '208',
                                                   'bitmap_in_rep', 'compressed', 'uncompressed'))
    has_str = any(f.kind == 'str' for w in case.decoded.subsets for f in w.fields)
    if has_str:
        out.classes.append('string_values')
        for w in case.decoded.subsets:
            for f in w.fields:
                if f.kind == 'str':
                    for raw in f.raws:
                        if any(c in raw for c in (b'"', b"'", b'\\')):
                            out.classes.append('string_with_quote_or_backslash')
                        if any(c >= 0x80 for c in raw) and raw != b'\xff' * len(raw):
                            out.classes.append('string_with_8bit')
                        if raw[:1] == b' ' or raw[-1:] == b' ':
                            out.classes.append('string_with_blanks')
        out.classes = sorted(set(out.classes))
    out.nontrivial = bool(feats & {'204', 'bitmap', 'delayed_rep', 'fixed_rep', '221_skipped'})
    check_message(out, case.bytes, case.values())
    if not out.failures:
        # "... or an attribute of its owner": the hierarchical view against the one expected from the reference model
        # (which value hangs on which node), subset by subset
        from checks import c07
        o = sut.call(decoder().process, case.bytes)
        if o.ok:
            got_nested = c07.rnested.strip_description(sut.nested_template_data(o.value))
            for i in range(min(case.nsub, len(got_nested))):
                d = c07.nested_diff(got_nested[i], c07.expected_nested(case, i))
                if d is not None:
                    out.fail('hierarchical view: a value is not a member / factor / attribute of the node it belongs to', subset=i,
                             path=d[0], got=d[1], expected=d[2])
                    break
    return out


def large_case(n_values):
    """one uncompressed subset with exactly n_values values: [001001] 102000 031002 001001 001002"""
    from refbufr import frame
    meta = frame.default_meta(4)
    meta.update({'master_table_version': 33, 'n_subsets': 1, 'is_compressed': False})
    lead = 1 - n_values % 2
    n = (n_values - 1 - lead) // 2
    if n > 65534:
        # the 16-bit factor holds 65534 at most: a second replication takes the rest
        m = (n_values - 2 - 2 * 65000) // 2
        lead = (n_values - 2 - 2 * 65000) - 2 * m
        case = gmsg.case_from_raws(meta, [1001] * lead + [102000, 31002, 1001, 1002, 102000, 31002, 1001, 1002],
                                   subsets=[[3] * lead + [65000] + [1, 2] * 65000 + [m] + [1, 2] * m])
        case.n_values = n_values
        assert len(case.values()[0]) == n_values
        return case
    case = gmsg.case_from_raws(meta, [1001] * lead + [102000, 31002, 1001, 1002], subsets=[[3] * lead + [n] + [1, 2] * n])
    case.n_values = n_values
    assert len(case.values()[0]) == n_values
    return case


def check_large(n_values):
    case = large_case(n_values)
    return case, check_case(case), None


def check_corpus(item):
    f, j, b = item
    from checks.c01 import CorpusCase
    cc = CorpusCase(f, j, b)
    out = Outcome()
    out.nontrivial = True
    out.classes = ['corpus']
    try:
        check_message(out, b, None, 'corpus')
    except Reject as e:
        return cc, None, str(e)
    return cc, out, None


def check_cli(case):
    """decode through the command line into the four formats, encode each back, compare bytes"""
    out = Outcome()
    out.nontrivial = True
    out.classes = ['cli']
    with cli.scratch('c09') as d:
        src = os.path.join(d, 'in.bufr')
        with open(src, 'wb') as f:
            f.write(case.bytes)
        results = {}
        for name, dflags, eflags in (('flat text', [], []), ('flat json', ['-j'], ['-j']), ('nested text', ['-a'], ['-a']),
                                     ('nested json', ['-a', '-j'], ['-a', '-j'])):
            o, so, se = cli.run_main(['decode'] + dflags + [src])
            if not o.ok:
                out.fail('decode command (%s) raised %s' % (name, o.exc_type), error=o.msg)
                continue
            if se.strip():
                out.fail('decode command (%s) wrote to stderr' % name, stderr=se[-200:])
                continue
            txt = os.path.join(d, 'out.%s' % name.replace(' ', '_'))
            # the command prints the file name first when there are several files; with one file the output is the rendering
            with open(txt, 'w', encoding='latin-1', newline='') as f:
                f.write(so)
            dst = txt + '.bufr'
            o, so2, se2 = cli.run_main(['encode'] + eflags + [txt, dst])
            if not o.ok or se2.strip() or not os.path.exists(dst):
                out.fail('encode command from the %s rendering failed' % name, error=o.msg if not o.ok else se2[-300:])
                continue
            results[name] = open(dst, 'rb').read()
        if len(results) == 4 and len(set(results.values())) != 1:
            out.fail('the command line encodes different bytes from the four formats',
                     lengths={k: len(v) for k, v in results.items()})
    return out


def gen(tier):
    opts = gmsg.GenOpts(tier)
    opts.template = gtemplates.Opts(max_ids=16 if tier == 'quick' else 30, w_204=3, w_bitmap=4)
    opts.max_subsets = 3
    opts.extra_widths = False
    return lambda ch: gmsg.gen_case(ch, opts)


def _k2(clause, f):
    """K2: the nested text rendering of an element skipped by 221YYY is a line with a name but without a value; the
    nested text -> flat JSON converter takes the last word of the name for the value: literal_eval fails (SyntaxError /
    ValueError) or, when the name ends in a number ("... SOLUTION 1"), an extra value appears.  Every clause about the
    nested TEXT format of a message that has such an element belongs to this finding; the other three formats of the
    same message are still checked."""
    if not isinstance(f.get('case'), dict) or '221_skipped' not in (f['case'].get('features') or []):
        return False
    return 'nested text' in clause


SIGNATURES = {'nested_text_of_221_skipped_element': _k2}


# ---- coverage-guided stage: the same generator and oracle, decisions taken from fuzzer bytes (vlib.fuzz) ----
_fuzz_gen = gen('quick')


fuzz_case = fuzz.structured_target(_fuzz_gen, check_case)


def run(tier, seed):
    rep = Report(PID, tier, seed, 'exploration')
    rep.rule = ('C01/C07 messages (associated fields on elements and factors, quality / statistics / substituted attributes, 221, zero-count '
                'replications, strings with quotes, blanks, backslashes and 8-bit bytes, compressed or not) and sample-corpus messages: '
                'the nested JSON, flat text and nested text renderings converted back must equal the flat JSON (after the JSON '
                'normalisation a user gets), all four must encode to the same bytes, the flat JSON must carry the decoded (= reference) '
                'values, and an independent traversal of the nested JSON must return every flat value exactly once and in order.  '
                'Non-trivial = the message has an attribute construct or a replication.')
    rep.assumptions = ['"exactly the flat JSON" is compared after json.dumps(**JSON_DUMPS_KWARGS) / json.loads on both sides']
    workers = runner.tier_workers(tier)
    std.replay_files(rep, PID, check_case, gmsg.Case.from_json)
    n = 2500 if tier == 'quick' else 60000
    runner.run_generated(rep, gen(tier), check_case, n, workers)
    stride = 25 if tier == 'quick' else 1
    items = corpusio.messages(stride=stride, offset=seed)
    res = runner.run_enumerated(items, check_corpus, workers, chunk=2)
    std.add_results(rep, res, 'corpus')
    std.run_boundary(rep, tier, check_case)
    std.run_named(rep, gmsg.same_shape_other_bitmap_cases(), check_case, 'same descriptors, other bitmap', 'same_descriptors_other_bitmap')
    std.run_named(rep, gmsg.unclosed_scope_cases(), check_case, 'template ends inside an operator scope', 'template_ends_inside_an_operator_scope')
    # subsets with about 100 000 values: the flat text numbers its lines in a five-character column
    res = runner.run_enumerated([100001] if tier == 'quick' else [99999, 100000, 100001, 100002, 131073], check_large, workers, chunk=1)
    for case, out, excl in res:
        rep.add_case(case.key(), True, ['subset_with_100000_values'], None)
        for clause, detail in out.failures:
            rep.add_failure('large subset: ' + clause, detail, {'n_values': case.n_values}, stage='large subsets')
    runner.run_generated(rep, gen(tier), check_cli, 24 if tier == 'quick' else 1200, 4 if tier == 'quick' else workers,
                         stage='command line')
    rep.required_classes = ['204', '221_skipped', 'zero_rep', 'bitmap', '222_qa', '224255', 'string_with_quote_or_backslash',
                            'string_with_8bit', 'string_with_blanks', 'compressed', 'uncompressed', 'corpus', 'cli', 'subset_with_100000_values']
    fuzz.run_structured(rep, 'checks.c09', _fuzz_gen, tier)
    return rep.finish(SIGNATURES)


def replay(path):
    with open(path) as f:
        d = json.load(f)
    if 'n_values' in d['case']:
        case, out, excl = check_large(d['case']['n_values'])
        for clause, detail in out.failures:
            print('VIOLATION property=%s replay=%s' % (PID, path))
            print('  clause: %s detail: %s' % (clause, json.dumps(runner.jsonable(detail))[:600]))
        return 1 if out.failures else 0
    if 'corpus_file' in d['case']:
        c = d['case']
        cc, out, excl = check_corpus((c['corpus_file'], c['message_index'], bytes.fromhex(c['bytes_hex'])))
        fails = out.failures if out else []
        for clause, detail in fails:
            print('VIOLATION property=%s replay=%s' % (PID, path))
            print('  clause: %s detail: %s' % (clause, json.dumps(runner.jsonable(detail))[:600]))
        return 1 if fails else 0
    return std.replay_main(PID, path, check_case, gmsg.Case.from_json)
