"""C01 -- decoding yields exactly the values FM-94 assigns to the bit stream.

Generator: gen.messages (templates x values x subsets x compression x editions, bytes built
by the reference model) + the sample corpus decoded by the reference.
Oracle: refbufr values / labels, position by position (DESIGN 7-C01)."""
import json

from vlib import runner, sut, corpusio, fuzz, std
from vlib.compare import first_value_diff
from vlib.runner import Outcome, Report
from gen import messages as gmsg
from refbufr import message as rmessage, frame, tables as rtables, IllFormed, Unsupported
from gen import pool as gpool

PID = 'C01'
OPERATOR_FEATURES = {'201', '202', '203', '203_applied', '204', '205', '206', '207', '208', '221', '222', '223',
                     '224', '225', '232', '235', '236', '237000', '237255', 'fixed_rep', 'delayed_rep',
                     'sequence'}
REQUIRED = ['201', '202', '203_applied', '204', '205', '206', '207', '208', '221_skipped', '222_qa', '223255',
            '224255', '225255', '232255', '235', '236', '237000', '237255', 'zero_rep', 'nested_rep', '1bit',
            'compressed', 'uncompressed', 'edition2', 'edition3', 'edition4', 'has_missing', 'local_table']

_DEC = None


def decoder():
    global _DEC
    if _DEC is None:
        _DEC = sut.Decoder()
    return _DEC


def compare_decode(out, msg_bytes, exp_values, exp_labels, meta, ids, what='generated'):
    o = sut.call(decoder().process, msg_bytes)
    if not o.ok:
        return out.fail('decode raised %s@%s' % (o.exc_type, o.frame), error=o.msg)
    m = o.value
    ob = sut.observe(m)
    if m.n_subsets.value != meta['n_subsets'] or bool(m.is_compressed.value) != bool(meta['is_compressed']):
        out.fail('n_subsets / is_compressed read back wrong', got=[m.n_subsets.value, m.is_compressed.value])
    if list(m.unexpanded_descriptors.value) != list(ids):
        out.fail('descriptor list read back wrong', got=list(m.unexpanded_descriptors.value))
    if len(ob['values']) != len(exp_values):
        return out.fail('number of subsets in the result', got=len(ob['values']), expected=len(exp_values))
    for i in range(len(exp_values)):
        if ob['labels'][i] != exp_labels[i]:
            k = next((j for j, (a, b) in enumerate(zip(ob['labels'][i], exp_labels[i])) if a != b),
                     min(len(ob['labels'][i]), len(exp_labels[i])))
            return out.fail('descriptor labels differ', subset=i, index=k,
                            got=ob['labels'][i][k:k + 3], expected=exp_labels[i][k:k + 3],
                            n_got=len(ob['labels'][i]), n_expected=len(exp_labels[i]))
        d = first_value_diff(ob['values'][i], exp_values[i])
        if d is not None:
            return out.fail('decoded value differs from (raw+ref)/10^scale', subset=i, index=d[0],
                            label=exp_labels[i][d[0]] if isinstance(d[0], int) else None,
                            got=d[1], expected=d[2])
    if m.serialized_bytes != msg_bytes:
        out.fail('serialized_bytes is not the message', n_got=len(m.serialized_bytes), n=len(msg_bytes))
    return out


def check_case(case):
    out = Outcome()
    feats = set(case.features)
    has_missing = False
    boundary = False
    for i in range(case.nsub):
        for k, f in enumerate(case.decoded.fields_of(i)):
            if f.kind == 'const':
                continue
            raw = case.decoded.raw(i, k)
            if f.is_missing_raw(raw):
                has_missing = True
            elif f.kind != 'str' and f.kind != 'refval' and raw in (0, (1 << f.nbits) - 2):
                boundary = True
    if has_missing:
        feats.add('has_missing')
    out.classes = sorted(feats)
    out.nontrivial = bool(feats & OPERATOR_FEATURES) or has_missing or boundary
    compare_decode(out, case.bytes, case.values(), case.labels(), case.meta, case.ids)
    if not out.failures and int(case.key()[6:8], 16) % 8 == 0:
        # the same with debug logging switched on (--debug): the decoder then keeps its values in audited lists
        out.classes = sorted(set(out.classes) | {'also_with_debug_logging'})
        with sut.debug_logging():
            compare_decode(out, case.bytes, case.values(), case.labels(), case.meta, case.ids)
        out.failures = [('debug logging on: ' + c, d) for c, d in out.failures]
    return out


class CorpusCase(object):
    def __init__(self, f, j, b):
        self.file, self.index, self.bytes = f, j, b

    def key(self):
        return '%s#%d' % (self.file, self.index)

    def summary(self):
        return {'corpus_file': self.file, 'message_index': self.index, 'n_bytes': len(self.bytes)}

    def to_json(self):
        return {'corpus_file': self.file, 'message_index': self.index, 'bytes_hex': self.bytes.hex()}


def check_corpus(item):
    f, j, b = item
    case = CorpusCase(f, j, b)
    out = Outcome()
    try:
        rm = rmessage.decode(b, strict_padding=False)
    except Unsupported as e:
        return case, None, 'unsupported: %s' % e
    except IllFormed as e:
        return case, None, 'reference rejects: %s' % str(e)[:60]
    amb = rm.decoded.ambiguous()
    if amb:
        return case, None, 'ambiguous: %s' % amb[0]
    n = rm.parsed.meta['n_subsets']
    vals = [rm.decoded.values_of(i) for i in range(n)]
    labs = [rm.decoded.labels_of(i) for i in range(n)]
    out.classes = ['corpus'] + sorted('corpus_' + x for x in rm.decoded.features())
    out.nontrivial = True
    compare_decode(out, b, vals, labs, rm.parsed.meta, rm.parsed.descriptors, 'corpus')
    return case, out, None


def gen_opts(tier):
    o = gmsg.GenOpts(tier)
    o.template.defs_in_rep = True
    return o


def run(tier, seed):
    rep = Report(PID, tier, seed, 'exploration')
    rep.rule = ('generated: template (sequences, nested fixed/delayed replication, operators 201-208, 221, '
                '222-225/232/235-237) x raw values (0, 1, 2^(n-1), max, missing, uniform) x 1..n subsets x '
                '{uncompressed, compressed incl. non-minimal difference widths} x editions 2-4, bytes built by the '
                'independent reference model; plus sample-corpus messages decoded by the reference.  Non-trivial = '
                'the case has an operator / replication / sequence or a missing or boundary raw value; distinct by '
                'hash of (metadata, descriptor list, raw matrix, difference widths).')
    rep.assumptions = ['refbufr (the reference model) implements FM-94 correctly; it shares only the table JSON '
                       'files with pybufrkit', 'float equality within 4 ulp (DESIGN 10-1)',
                       'specification-ambiguous constructs of DESIGN 10-2 are not generated (counted under excluded)']
    rep.required_classes = REQUIRED
    replay_corpus(rep)
    workers = runner.tier_workers(tier)
    n = 6000 if tier == 'quick' else 150000
    opts = gen_opts(tier)
    runner.run_generated(rep, lambda ch: gmsg.gen_case(ch, opts), check_case, n, workers,
                         shrink_s=20 if tier == 'quick' else 120)
    # the Table B of the version the message names: elements that two versions define with the same width but another
    # scale / reference value, decoded one after the other by the one decoder object the other stages share
    vs = gmsg.QUICK_VERSIONS + [16, 37] if tier == 'quick' else rtables.available_master_versions()
    n_pairs = 0
    for tag, cases in gmsg.version_twin_runs(vs, 4 if tier == 'quick' else 6):
        for case in cases:
            out = check_case(case)
            rep.add_case(case.key(), True, ['same_element_in_two_table_versions'] +
                         (['same_element_under_marker_in_two_table_versions'] if tag.startswith('marker') else []), None)
            for clause, detail in out.failures:
                rep.add_failure('table versions: ' + clause, dict(detail, decoded_in_this_order=tag), case.to_json(),
                                stage='table versions')
        n_pairs += 1
    rep.extra['table_version_twins'] = n_pairs
    # one element with associated fields of two widths, in two messages decoded one after the other by the shared decoder
    for tag, cases in gmsg.assoc_width_twin_runs():
        for case in cases:
            out = check_case(case)
            rep.add_case(case.key(), True, ['same_element_with_two_associated_field_widths'], None)
            for clause, detail in out.failures:
                rep.add_failure('associated field widths: ' + clause, dict(detail, decoded_in_this_order=tag), case.to_json(),
                                stage='associated field widths')
    # operator-bearing Table D sequences as templates of their own (the random grammar keeps them out)
    so = gen_opts(tier)
    so.max_fields = 600
    so.max_subsets = 3
    runner.run_generated(rep, lambda ch: gmsg.gen_opseq_case(ch, so), check_case, 400 if tier == 'quick' else 20000, workers,
                         stage='operators inside sequences')
    std.run_boundary(rep, tier, check_case)
    std.run_named(rep, gmsg.wide_field_cases(tier), check_case, 'wide fields', 'field_wider_than_53_bits')
    # corpus
    stride = 20 if tier == 'quick' else 1
    items = corpusio.messages(stride=stride, offset=seed)
    res = runner.run_enumerated(items, check_corpus, workers, chunk=4)
    for case, out, excl in res:
        if excl:
            rep.excluded['corpus: ' + excl] += 1
            continue
        rep.add_case(case.key(), out.nontrivial, out.classes, case.summary() if len(rep.samples) < 8 else None)
        for clause, detail in out.failures:
            rep.add_failure('corpus: ' + clause, detail, case.to_json(), stage='corpus')
    fuzz.run_structured(rep, 'checks.c01', _fuzz_gen, tier)
    return rep.finish(SIGNATURES)


def replay_corpus(rep):
    for path in runner.corpus_files(PID):
        with open(path) as f:
            d = json.load(f)
        code = _replay_dict(d, rep, path)


def _replay_dict(d, rep, path):
    c = d['case']
    if c.get('probe'):
        # a hand-built well-formed message of a recorded finding: it must decode (values per the probe file)
        out = Outcome()
        out.nontrivial = True
        o = sut.call(decoder().process, bytes.fromhex(c['bytes_hex']))
        if not o.ok:
            out.fail('decode raised %s@%s' % (o.exc_type, o.frame), error=o.msg, probe=c['probe'])
        else:
            ob = sut.observe(o.value)
            if ob['labels'][0] != c['expected_labels']:
                out.fail('descriptor labels differ', got=ob['labels'][0], expected=c['expected_labels'], probe=c['probe'])
            elif first_value_diff(ob['values'][0], c['expected_values']) is not None:
                out.fail('decoded value differs from (raw+ref)/10^scale', got=ob['values'][0], expected=c['expected_values'],
                         probe=c['probe'])
    elif 'corpus_file' in c:
        case, out, excl = check_corpus((c['corpus_file'], c['message_index'], bytes.fromhex(c['bytes_hex'])))
    else:
        case = gmsg.Case.from_json(c)
        out = check_case(case)
    if out is None:
        return 0
    rep.add_case('replay:' + path, out.nontrivial, ['regression_replay'])
    for clause, detail in out.failures:
        rep.add_failure(clause, detail, c, stage='replay ' + path)
    return 1 if out.failures else 0


def replay(path):
    rep = Report(PID, 'quick', 0)
    with open(path) as f:
        d = json.load(f)
    _replay_dict(d, rep, path)
    for clause, f in rep.failures.items():
        print('VIOLATION property=%s replay=%s' % (PID, path))
        print('  clause: %s detail: %s' % (clause, json.dumps(runner.jsonable(f['detail']))[:600]))
    return 1 if rep.failures else 0


def _k1(clause, f):
    return (isinstance(f.get('case'), dict) and f['case'].get('probe') == 'K1'
            and ('KeyError@templatedata.py:wire_bitmap_attribute' in clause or 'descriptor labels differ' in clause))


SIGNATURES = {'marker_operator_under_open_204': _k1}


# ---- coverage-guided stage (thorough): the same generator and oracle, decisions taken from fuzzer bytes --------
def _fuzz_gen(ch):
    return gmsg.gen_case(ch, gen_opts('quick'))


fuzz_case = fuzz.structured_target(_fuzz_gen, check_case)
