"""C19 -- bit-level reading and writing are exact inverses for every width.

Exhaustive core: width 1..64 x {0, 1, 2^(n-1), 2^n-2, 2^n-1} x bit offset 0..7 for unsigned,
sign-magnitude signed and in-place overwrite, plus non-fitting values and reads past the
end.  Random: sequences of up to 200 typed fields.  Oracle: a str-of-bits model."""
import json

from vlib import runner, sut, fuzz
from vlib.runner import Outcome, Report, Reject
from pybufrkit.bitops import get_bit_reader, get_bit_writer

PID = 'C19'
BitReadError = sut.BitReadError


def model_bytes(bits):
    if len(bits) % 8:
        bits = bits + '0' * (8 - len(bits) % 8)
    return int(bits, 2).to_bytes(len(bits) // 8, 'big') if bits else b''


def wbytes(w):
    """bytes of a writer, completing the last octet with zero bits as the encoder does"""
    r = w.get_pos() % 8
    if r:
        w.write_bin('0' * (8 - r))
    return w.to_bytes()


def ubits(v, n):
    return format(v, '0%db' % n)


def cell_values(n):
    vs = []
    for v in (0, 1, 1 << (n - 1), (1 << n) - 2, (1 << n) - 1):
        if 0 <= v < (1 << n) and v not in vs:
            vs.append(v)
    return vs


SENT = '101'


def check_cell(item):
    """one cell of the enumeration; returns list of (clause, detail)"""
    kind, n, v, off = item
    fails = []

    def bad(clause, **d):
        d.update({'kind': kind, 'width': n, 'value': v, 'offset': off})
        fails.append((clause, d))
    try:
        if kind == 'uint':
            w = get_bit_writer()
            if off:
                w.write_bin('1' * off)
            r0 = w.write_uint(v, n)
            w.write_bin(SENT)
            bits = '1' * off + ubits(v, n) + SENT
            if w.get_pos() != len(bits):
                bad('writer position after write_uint', got=w.get_pos(), expected=len(bits))
            got_b = wbytes(w)
            if got_b != model_bytes(bits):
                bad('write_uint bytes differ from the model', got=got_b.hex(), expected=model_bytes(bits).hex())
            for meth in ('read_uint', 'read_uint_or_none'):
                r = get_bit_reader(model_bytes(bits))
                if off:
                    r.read_bin(off)
                got = getattr(r, meth)(n)
                exp = v
                if meth == 'read_uint_or_none' and n > 1 and v == (1 << n) - 1:
                    exp = None
                if got != exp or (exp is not None and type(got) is not int):
                    bad(meth + ' returned a different value', got=got, expected=exp)
                if r.get_pos() != off + n:
                    bad('reader position after ' + meth, got=r.get_pos(), expected=off + n)
                if r.read_bin(3) != SENT:
                    bad('sentinel after the field damaged')
        elif kind == 'int':
            w = get_bit_writer()
            if off:
                w.write_bin('1' * off)
            w.write_int(v, n)
            w.write_bin(SENT)
            bits = '1' * off + ('1' if v < 0 else '0') + ubits(abs(v), n - 1) + SENT
            if w.get_pos() != len(bits):
                bad('writer position after write_int', got=w.get_pos(), expected=len(bits))
            got_b = wbytes(w)
            if got_b != model_bytes(bits):
                bad('write_int is not sign-magnitude', got=got_b.hex(), expected=model_bytes(bits).hex())
            r = get_bit_reader(model_bytes(bits))
            if off:
                r.read_bin(off)
            got = r.read_int(n)
            if got != v:
                bad('read_int returned a different value', got=got)
            if r.get_pos() != off + n:
                bad('reader position after read_int', got=r.get_pos(), expected=off + n)
            # negative zero reads as zero
        elif kind == 'set':
            w = get_bit_writer()
            if off:
                w.write_bin('1' * off)
            old = (1 << n) - 1 if v == 0 else 0
            w.write_uint(old, n)
            w.write_bin(SENT)
            w.write_uint(0xA5, 8)
            before = w.get_pos()
            w.set_uint(v, n, off)
            bits = '1' * off + ubits(v, n) + SENT + '10100101'
            if w.get_pos() != before:
                bad('set_uint changed the total length', got=w.get_pos(), expected=before)
            elif wbytes(w) != model_bytes(bits):
                bad('set_uint changed other bits or wrote a wrong value', got=wbytes(w).hex(),
                    expected=model_bytes(bits).hex())
        elif kind == 'set_overflow':
            # an in-place overwrite with a value that does not fit the field is refused and changes nothing
            w = get_bit_writer()
            if off:
                w.write_bin('1' * off)
            w.write_uint(1 if n > 1 else 0, n)
            w.write_bin(SENT)
            w.write_uint(0xA5, 8)
            snapshot = wbytes(w)
            try:
                w.set_uint(v, n, off)
                bad('value that does not fit was accepted by set_uint', before=snapshot.hex(), after=wbytes(w).hex())
            except Exception:
                if wbytes(w) != snapshot:
                    bad('a refused set_uint changed the stream', before=snapshot.hex(), after=wbytes(w).hex())
        elif kind == 'overflow':
            w = get_bit_writer()
            if off:
                w.write_bin('1' * off)
            try:
                w.write_uint(v, n)
                bad('value that does not fit was accepted by write_uint', bytes=wbytes(w).hex())
            except Exception:
                pass
        elif kind == 'int_overflow':
            w = get_bit_writer()
            try:
                w.write_int(v, n)
                bad('value that does not fit was accepted by write_int', bytes=wbytes(w).hex())
            except Exception:
                pass
        elif kind == 'past_end':
            # v selects the read type; the stream holds off + n - 1 bits after alignment
            have = off + n - 1
            data = model_bytes('1' * have)
            # the byte padding adds bits, so truncate the request to go past the padded end
            total = len(data) * 8
            typ = ('uint', 'int', 'bool', 'bin', 'bytes', 'uint_or_none')[v]
            r = get_bit_reader(data)
            if total:
                r.read_bin(total if typ in ('bool',) else max(0, total - (n - 1)))
            try:
                if typ == 'bool':
                    r.read_bool()
                elif typ == 'bytes':
                    r.read_bytes((n + 7) // 8 + 1)
                elif typ == 'int':
                    r.read_int(max(2, n))
                else:
                    getattr(r, 'read_' + typ)(n)
                bad('read past the end returned a value', type=typ)
            except BitReadError:
                pass
            except Exception as e:
                bad('read past the end raised %s, not BitReadError' % type(e).__name__, type=typ, error=str(e)[:100])
    except Exception as e:
        bad('unexpected %s' % type(e).__name__, error=str(e)[:200])
    return fails


def enum_cells():
    cells = []
    for n in range(1, 65):
        for off in range(8):
            for v in cell_values(n):
                cells.append(('uint', n, v, off))
                cells.append(('set', n, v, off))
            for v in ((1 << n), (1 << n) + 1, -1, 1 << (n + 4), (1 << (n + 7)) + 0x34, (1 << (n + 8)) - 1, (1 << (n + 15)) + 1, 1 << (n + 64)):
                cells.append(('overflow', n, v, off))
            for v in ((1 << n), (1 << n) + 1, -1, -(1 << (n - 1)), -(1 << n)):
                cells.append(('set_overflow', n, v, off))
            if n >= 2:
                mags = []
                for m in (0, 1, 1 << (n - 2), (1 << (n - 1)) - 1):
                    if m not in mags and m < (1 << (n - 1)):
                        mags.append(m)
                for m in mags:
                    cells.append(('int', n, m, off))
                    if m:
                        cells.append(('int', n, -m, off))
                if off == 0:
                    cells.append(('int_overflow', n, 1 << (n - 1), 0))
                    cells.append(('int_overflow', n, -(1 << (n - 1)), 0))
            for t in range(6):
                cells.append(('past_end', n, t, off))
    return cells


# ---------------------------------------------------------------------------------------
# random sequences
class SeqCase(object):
    def __init__(self, ops):
        self.ops = ops

    def key(self):
        import hashlib
        return hashlib.sha1(repr(self.ops).encode()).hexdigest()[:20]

    def summary(self):
        return {'n_fields': len(self.ops), 'ops': [list(map(_j, o)) for o in self.ops[:12]]}

    def to_json(self):
        return {'ops': [list(map(_j, o)) for o in self.ops]}

    @staticmethod
    def from_json(d):
        return SeqCase([tuple(_uj(x) for x in o) for o in d['ops']])


def _j(x):
    return {'hex': x.hex()} if isinstance(x, bytes) else x


def _uj(x):
    return bytes.fromhex(x['hex']) if isinstance(x, dict) else x


def _width(op):
    t, n, v = op
    return 0 if t in ('dump', 'set') else n * 8 if t in ('bytes', 'text') else n


def _gen_dump(ch, ops, uints):
    """look at the bytes written so far; they can only be taken when they are whole octets, so the last octet is
    mostly completed first with an unsigned field"""
    rest = -sum(_width(o) for o in ops) % 8
    if rest and ch.bool(3, 4):
        uints.append(len(ops))
        ops.append(('uint', rest, ch.int(0, (1 << rest) - 1)))
    ops.append(('dump', 0, 0))


def gen_seq(ch, max_fields):
    n = ch.int(1, max_fields)
    ops = []
    uints = []          # indices of the unsigned fields written so far (targets of in-place overwrites)
    for _ in range(n):
        t = ch.weighted([(4, 'uint'), (2, 'int'), (1, 'bool'), (1, 'bin'), (2, 'bytes'), (1, 'skip'),
                         (1, 'text'), (1, 'dump'), (2 if uints else 0, 'set')])
        if t == 'dump':
            _gen_dump(ch, ops, uints)
            continue
        if t == 'set':
            k = ch.choice(uints)
            w = ops[k][1]
            ops.append(('set', k, ch.weighted([(3, ch.int(0, (1 << w) - 1)), (1, 0), (1, (1 << w) - 1)])))
            if ch.bool():
                _gen_dump(ch, ops, uints)       # overwrite, then look at the bytes at once
            continue
        if t == 'uint':
            uints.append(len(ops))
            w = ch.weighted([(3, ch.int(1, 64)), (1, 8), (1, 24), (1, 1)])
            v = ch.weighted([(3, ch.int(0, (1 << w) - 1)), (1, 0), (1, (1 << w) - 1)])
            ops.append(('uint', w, v))
        elif t == 'int':
            w = ch.int(2, 64)
            m = ch.weighted([(3, ch.int(0, (1 << (w - 1)) - 1)), (1, 0), (1, (1 << (w - 1)) - 1)])
            ops.append(('int', w, -m if ch.bool() else m))
        elif t == 'bool':
            ops.append(('bool', 1, ch.bool()))
        elif t == 'bin':
            w = ch.int(1, 20)
            ops.append(('bin', w, ubits(ch.int(0, (1 << w) - 1), w)))
        elif t == 'bytes':
            nb = ch.int(0, 12)
            ln = ch.int(0, 14)
            ops.append(('bytes', nb, ch.bytes(ln)))
        elif t == 'text':
            nb = ch.int(0, 12)
            ln = ch.int(0, 14)
            ops.append(('text', nb, ch.bytes(ln).decode('latin-1')))
        else:
            ops.append(('skip', ch.int(1, 40), 0))
    return SeqCase(ops)


def check_seq(case):
    out = Outcome()
    out.nontrivial = False
    w = get_bit_writer()
    bits = ''
    exp_reads = []
    starts = {}         # op index -> (bit offset, index into exp_reads) of an unsigned field
    # every other case goes through the typed entry points write(value, type, nbits) / read(type, nbits)
    generic = int(case.key()[:2], 16) % 2 == 1
    if generic:
        out.classes.append('typed_entry_points')
    try:
        for iop, op in enumerate(case.ops):
            t, n, v = op
            if t == 'dump':
                if len(bits) % 8 == 0:
                    out.classes.append('dump_in_mid_sequence')
                    got = w.to_bytes()
                    if got != model_bytes(bits):
                        out.fail('to_bytes in mid-sequence differs from the model', got=got.hex(), expected=model_bytes(bits).hex(),
                                 after_ops=iop)
                        return out
                continue
            if t == 'set':
                off, ridx = starts[n]
                width = case.ops[n][1]
                out.classes.append('overwrite_in_place')
                out.nontrivial = True
                w.set_uint(v, width, off)
                bits = bits[:off] + ubits(v, width) + bits[off + width:]
                exp_reads[ridx] = ('uint', width, v)
                if w.get_pos() != len(bits):
                    out.fail('set_uint changed the length of the stream', got=w.get_pos(), expected=len(bits))
                    return out
                continue
            if t == 'uint':
                starts[iop] = (len(bits), len(exp_reads))
                if bits and len(bits) % 8:
                    out.nontrivial = True
                w.write(v, 'uint', n) if generic else w.write_uint(v, n)
                bits += ubits(v, n)
                exp_reads.append((t, n, v))
            elif t == 'int':
                w.write(v, 'int', n) if generic else w.write_int(v, n)
                bits += ('1' if v < 0 else '0') + ubits(abs(v), n - 1)
                exp_reads.append((t, n, v))
            elif t == 'bool':
                w.write(v, 'bool', 1) if generic else w.write_bool(v)
                bits += '1' if v else '0'
                exp_reads.append((t, 1, v))
            elif t == 'bin':
                w.write(v, 'bin', n) if generic else w.write_bin(v)
                bits += v
                exp_reads.append((t, n, v))
            elif t in ('bytes', 'text'):
                raw = v.encode('latin-1') if t == 'text' else v
                exp = raw[:n] + b' ' * max(0, n - len(raw))
                ret = w.write(v, 'bytes', 8 * n) if generic else w.write_bytes(v, n)
                if ret != exp:
                    out.fail('write_bytes returned a value that is not padded/truncated to the width', got=ret, expected=exp)
                bits += ''.join(ubits(c, 8) for c in exp)
                exp_reads.append(('bytes', n, exp))
                out.classes.append('bytes_padded' if len(raw) < n else 'bytes_truncated' if len(raw) > n else 'bytes_exact')
            elif t == 'skip':
                w.skip(n)
                bits += '0' * n
                exp_reads.append(('bin', n, '0' * n))
            if w.get_pos() != len(bits):
                out.fail('writer position differs from the model after %s' % t, got=w.get_pos(), expected=len(bits))
                return out
        data = w.to_bytes() if len(bits) % 8 == 0 else None
        if data is None:
            # complete the last octet like the encoder does
            pad = 8 - len(bits) % 8
            w.write_bin('0' * pad)
            bits_p = bits + '0' * pad
            data = w.to_bytes()
        else:
            bits_p = bits
        if data != model_bytes(bits_p):
            out.fail('to_bytes differs from the model', got=data.hex(), expected=model_bytes(bits_p).hex())
            return out
        r = get_bit_reader(data)
        pos = 0
        for t, n, v in exp_reads:
            if generic and not (t == 'bin' and not n):
                got = r.read(t, 8 * n if t == 'bytes' else n)
            elif t == 'uint':
                got = r.read_uint(n)
            elif t == 'int':
                got = r.read_int(n)
            elif t == 'bool':
                got = r.read_bool()
            elif t == 'bin':
                got = r.read_bin(n) if n else ''
            else:
                got = r.read_bytes(n)
            pos += n * 8 if t == 'bytes' else n
            if got != v:
                out.fail('%s of width %d read back differently' % (t, n), got=got, expected=v)
                return out
            if r.get_pos() != pos:
                out.fail('reader position differs from the model after %s' % t, got=r.get_pos(), expected=pos)
                return out
    except Exception as e:
        out.fail('unexpected %s in a write/read sequence' % type(e).__name__, error=str(e)[:200],
                 frame=sut.innermost_sut_frame(e.__traceback__))
    return out


# ---- coverage-guided stage: the same generator and oracle, decisions taken from fuzzer bytes (vlib.fuzz) ----
def _fuzz_gen(ch):
    return gen_seq(ch, 60)


fuzz_case = fuzz.structured_target(_fuzz_gen, check_seq)


def run(tier, seed):
    rep = Report(PID, tier, seed, 'exploration')
    rep.rule = ('exhaustive: width 1..64 x values {0,1,2^(n-1),2^n-2,2^n-1} x bit offset 0..7 for write/read unsigned, '
                'sign-magnitude signed (widths 2..64, both signs) and in-place overwrite between sentinels; values '
                '2^n, 2^n+1, -1 must be refused; reads past the end for 6 read types; random: sequences of up to 200 '
                'typed fields against a str-of-bits model.  Every enumerated cell is distinct; non-trivial = offset != 0 '
                'or width not a multiple of 8 (cells) / an unaligned field (sequences).')
    rep.assumptions = ['signed fields need a magnitude bit: widths 2..64 (DESIGN 10-8)']
    workers = runner.tier_workers(tier)
    cells = enum_cells()
    res = runner.run_enumerated(cells, check_cell, workers, chunk=400)
    for item, fails in zip(cells, res):
        kind, n, v, off = item
        rep.add_case('cell:%r' % (item,), off != 0 or n % 8 != 0, ['cell_' + kind],
                     {'kind': kind, 'width': n, 'value': v, 'offset': off} if (n, off) in ((13, 3), (64, 7)) and kind in ('uint', 'set') and v == 1 else None)
        for clause, detail in fails:
            # bucket per kind + alignment class so one shallow defect does not hide another
            rep.add_failure('%s [%s]' % (clause, kind), detail, {'cell': list(item)}, stage='enumeration')
    rep.exhaustive = True
    rep.extra['enumerated_cells'] = len(cells)
    for path in runner.corpus_files(PID):
        _replay_file(path, rep)
    n = 2000 if tier == 'quick' else 100000
    runner.run_generated(rep, lambda ch: gen_seq(ch, 60 if tier == 'quick' else 200), check_seq, n, workers,
                         stage='sequences')
    fuzz.run_structured(rep, 'checks.c19', _fuzz_gen, tier)
    return rep.finish()


def _replay_file(path, rep):
    with open(path) as f:
        d = json.load(f)
    c = d['case']
    if 'cell' in c:
        item = tuple(c['cell'])
        fails = check_cell(item)
        rep.add_case('replay:' + path, True, ['regression_replay'])
        for clause, detail in fails:
            rep.add_failure('%s [%s]' % (clause, item[0]), detail, c, stage='replay')
        return bool(fails)
    case = SeqCase.from_json(c)
    out = check_seq(case)
    rep.add_case('replay:' + path, True, ['regression_replay'])
    for clause, detail in out.failures:
        rep.add_failure(clause, detail, c, stage='replay')
    return bool(out.failures)


def replay(path):
    rep = Report(PID, 'quick', 0)
    bad = _replay_file(path, rep)
    for clause, f in rep.failures.items():
        print('VIOLATION property=%s replay=%s' % (PID, path))
        print('  clause: %s detail: %s' % (clause, json.dumps(runner.jsonable(f['detail']))[:600]))
    return 1 if bad else 0
