"""C16 -- data queries return exactly the values the path designates.

Generator: C01/C07 messages (sequences, fixed / delayed incl. zero-count replications, factors,
associated / marker / quality attributes; 1..5 subsets; compressed or not) + sample corpus;
paths are random walks over the message's own nested JSON (child and attribute steps with every
slice form, optional '@' selector, occasional non-existent IDs) and the bare IDs of ordinary
elements.  Oracle: refbufr.pathref.evaluate on the nested JSON rendering; the flat data for bare
IDs; metamorphic: compressed vs uncompressed storage, with vs without template compilation."""
import hashlib
import json

from vlib import runner, sut, std, corpusio, fuzz
from vlib.runner import Outcome, Report, Reject
from gen import messages as gmsg, templates as gtemplates, pool as gpool
from refbufr import pathref, IllFormed, Unsupported
from pybufrkit.dataquery import NodePathParser, DataQuerent

PID = 'C16'
QueryError = sut.QueryError
_DEC = {}
_Q = DataQuerent(NodePathParser())
_Q0 = DataQuerent(NodePathParser(bare_id_matches_all=False))


def decoder(kind='plain'):
    if kind not in _DEC:
        _DEC[kind] = sut.Decoder() if kind == 'plain' else sut.Decoder(compiled_template_cache_max=4)
    return _DEC[kind]


# ---- path generation over a nested JSON subset ----------------------------------------------------
def gen_slice(ch, n_same):
    """(text, spec) sized around the number of same-ID siblings"""
    k = ch.weighted([(5, 'none'), (4, 'idx'), (2, 'neg'), (3, 'ab'), (2, 'abc'), (1, 'rev'), (1, 'all')])
    hi = n_same + 1
    if k == 'none':
        return '', None
    if k == 'idx':
        i = ch.int(0, hi)
        return '[%d]' % i, ('idx', i)
    if k == 'neg':
        i = -ch.int(1, hi + 1)
        return '[%d]' % i, ('idx', i)
    if k == 'rev':
        return '[::-1]', ('slice', None, None, -1)
    if k == 'all':
        return ch.choice(['[:]', '[::]', '[ : ]']), ('slice', None, None, None)
    a = ch.int(-hi, hi) if ch.bool(2, 3) else None
    b = ch.int(-hi, hi + 1) if ch.bool(2, 3) else None
    if k == 'ab':
        return '[%s:%s]' % ('' if a is None else a, '' if b is None else b), ('slice', a, b, None)
    c = ch.choice([1, 2, -1, -2, 3])
    return '[%s:%s:%d]' % ('' if a is None else a, '' if b is None else b, c), ('slice', a, b, c)


def value_ids(cands):
    return [c['id'] for c in cands if 'value' in c]


def gen_path(ch, subset_members, max_steps=6):
    """a path that exists in the structure: [(sep, id, spec)], text"""
    comps = []
    text = ''
    node = {'id': 'TEMPLATE', 'members': subset_members}
    for step in range(max_steps):
        # candidates reachable by one step
        opts = []
        if 'members' in node and 'value' not in node:
            cands = node['members']
            if pathref._is_replication(node):
                cands = cands[0] if cands else []
            if cands:
                opts.append(('/', cands))
            elif step > 0:
                opts.append(('/', []))
        if 'factor' in node:
            opts.append(('.', [node['factor']]))
        elif 'value' in node and node.get('attributes'):
            opts.append(('.', node['attributes']))
        if not opts:
            break
        sep, cands = ch.choice(opts)
        ids = []
        for c in cands:
            if c['id'] not in ids:
                ids.append(c['id'])
        if not ids or ch.bool(1, 14):
            ident = ch.choice(['099099', '001001', '101000', '031001'])
        else:
            # prefer steps that lead somewhere: composite nodes, nodes with attributes, IDs with several siblings
            weighted = []
            for i in ids:
                grp = [c for c in cands if c['id'] == i]
                w = 1
                if any(('members' in c and 'value' not in c) or c.get('attributes') or 'factor' in c for c in grp):
                    w += 4
                if len(grp) > 1:
                    w += 3
                weighted.append((w, i))
            ident = ch.weighted(weighted)
        same = [c for c in cands if c['id'] == ident]
        stext, spec = gen_slice(ch, len(same))
        comps.append((sep, ident, spec))
        text += '%s%s%s%s' % (ch.choice(['', ' ']), sep, ident, stext)
        chosen = pathref.apply_spec(spec, same)
        if chosen == 'error' or not chosen:
            break
        nxt = chosen[0]
        # stop here when the selection are value nodes and either nothing can follow or by choice
        can_continue = ('members' in nxt and 'value' not in nxt) or 'factor' in nxt or ('value' in nxt and nxt.get('attributes'))
        if 'value' in nxt and (not can_continue or ch.bool(2, 5)):
            break
        if not can_continue:
            break
        node = nxt
    return comps, text.strip()


def gen_selector(ch, n):
    k = ch.weighted([(6, 'none'), (3, 'idx'), (2, 'neg'), (3, 'slice')])
    if k == 'none':
        return '', None
    if k == 'idx':
        i = ch.int(0, n - 1)
        return '@[%d]' % i, ('idx', i)
    if k == 'neg':
        i = -ch.int(1, n)
        return '@[%d]' % i, ('idx', i)
    a = ch.int(-n, n) if ch.bool() else None
    b = ch.int(-n, n + 1) if ch.bool() else None
    c = ch.choice([None, 1, 2, -1])
    return '@[%s:%s:%s]' % ('' if a is None else a, '' if b is None else b, '' if c is None else c), ('slice', a, b, c)


class QCase(object):
    def __init__(self, case, paths, bare):
        self.case, self.paths, self.bare = case, paths, bare     # paths: [(selector text, selector spec, comps, text)]

    def key(self):
        return hashlib.sha1((self.case.key() + repr([p[0] + p[3] for p in self.paths]) + repr(self.bare)).encode()).hexdigest()[:20]

    def summary(self):
        s = self.case.summary()
        s['paths'] = [(p[0] + ' ' + p[3]).strip() for p in self.paths][:6]
        s['bare_ids'] = self.bare[:6]
        return s

    def to_json(self):
        return {'case': self.case.to_json(), 'paths': [[p[0], p[1], [list(c) for c in p[2]], p[3]] for p in self.paths],
                'bare': self.bare}

    @staticmethod
    def from_json(d):
        def spec(x):
            return None if x is None else tuple(x)
        paths = [(p[0], spec(p[1]), [(c[0], c[1], spec(c[2])) for c in p[2]], p[3]) for p in d['paths']]
        return QCase(gmsg.Case.from_json(d['case']), paths, list(d['bare']))


def nested_of(case, kind='plain'):
    o = sut.call(decoder(kind).process, case.bytes)
    if not o.ok:
        return o, None
    return o, sut.nested_template_data(o.value)


def ordinary_ids(nj_all):
    """ids that occur as member value nodes and never as an attribute or a replication factor"""
    members, attached = set(), set()

    def walk(nodes):
        for n in nodes:
            if 'value' in n:
                members.add(n['id'])
                for a in n.get('attributes', []) or []:
                    attached.add(a['id'])
                    for b in a.get('attributes', []) or []:
                        attached.add(b['id'])
            else:
                if 'factor' in n:
                    attached.add(n['factor']['id'])
                    for a in n['factor'].get('attributes', []) or []:
                        attached.add(a['id'])
                if 'members' in n:
                    if pathref._is_replication(n):
                        for rep in n['members']:
                            walk(rep)
                    else:
                        walk(n['members'])
    for sub in nj_all:
        walk(sub)
    return sorted(members - attached)


def gen_case(ch, opts, n_paths):
    if ch.bool(1, 8):
        # one element outside and inside (nested) replications: its bare ID matches at several nesting depths
        mv = ch.choice(opts.versions or gmsg.QUICK_VERSIONS)
        pl = gpool.pool_for(mv)
        e, f = ch.choice(pl.num_all), ch.choice(pl.num_all)
        ids = ch.choice([[e, 101002, e], [e, f, 102000, 31001, f, 101000, 31001, e], [102002, e, 101002, e, e, f],
                         [e, 103000, 31001, f, e, 101000, 31001, e, f]])
        case = gmsg.gen_case(ch, opts, fixed=(mv, None, ids))
        case.features.add('same_id_at_several_depths')
    else:
        case = gmsg.gen_case(ch, opts)
    o, nj = nested_of(case)
    if not o.ok:
        raise Reject('message does not decode (C01 reports it)')
    n = case.nsub
    paths = []
    for _ in range(n_paths):
        sub = ch.int(0, n - 1)
        comps, text = gen_path(ch, nj[sub])
        if not comps:
            continue
        stext, sspec = gen_selector(ch, n)
        paths.append((stext, sspec, comps, text))
    ids = ordinary_ids(nj)
    bare = []
    for _ in range(min(3, len(ids))):
        i = ch.choice(ids)
        if i not in bare:
            bare.append(i)
    return QCase(case, paths, bare)


# expressions the path parser rejects, most of them after it has collected a selector or part of a slice: the querent (and
# its parser) are long-lived objects, so every other query is preceded by one of these through the same querent -- the
# answer to the valid query that follows must not depend on it
REJECTED = ['@[1]', '@[2:7:2]', '/001001[0:', '/001001[1]x', '@[1:2:3:4]/001001', '001001[', '@[0', '/[', '@/', '/001001[1:2',
            '@[-1', '001001.[3]', '001001[1:x]', '@[1:']


def run_query(msg, expr):
    h = int(hashlib.sha1(expr.encode()).hexdigest()[:6], 16)
    if h % 2 == 0:
        sut.call(_Q.query, msg, REJECTED[(h // 2) % len(REJECTED)])
    o = sut.call(_Q.query, msg, expr)
    if not o.ok:
        return o, None, None
    qr = o.value
    return o, sut.norm_json(qr.all_values()), qr


def expected_subsets(spec, n):
    if spec is None:
        return list(range(n))
    if spec[0] == 'idx':
        k = spec[1] if spec[1] >= 0 else n + spec[1]
        return [k] if 0 <= k < n else []
    return list(range(n))[slice(spec[1], spec[2], spec[3])]


def has_valueless_node(nodes, ident):
    """does the nested JSON hold an element node with this id and no value (data not present, 221YYY)?"""
    for nd in nodes:
        if isinstance(nd, list):
            if has_valueless_node(nd, ident):
                return True
            continue
        if nd.get('id') == ident and 'value' not in nd and 'members' not in nd:
            return True
        for k in ('members', 'attributes'):
            if k in nd and has_valueless_node(nd[k], ident):
                return True
        if 'factor' in nd and has_valueless_node([nd['factor']], ident):
            return True
    return False


def check_paths(out, what, msg, nj, labels, flat_values, qc, n):
    for stext, sspec, comps, text in qc.paths:
        expr = (stext + ' ' + text).strip()
        try:
            want_subs = expected_subsets(sspec, n)
            want = [pathref.evaluate(nj[i], comps) for i in want_subs]
        except pathref.NotEvaluable:
            out.classes.append('path_not_evaluable')
            continue
        o, got, qr = run_query(msg, expr)
        if not o.ok:
            if isinstance(o.exc, QueryError):
                # the library found a node without such sub-nodes in a part of the tree the reference did not have to enter
                out.classes.append('library_query_error')
                continue
            out.fail('%s: query raised %s@%s' % (what, o.exc_type, o.frame), expr=expr, error=o.msg)
            continue
        if list(qr.subset_indices()) != want_subs:
            out.fail('%s: the "@" selector does not restrict the result to exactly the selected subsets' % what, expr=expr,
                     got=list(qr.subset_indices()), expected=want_subs, n_subsets=n)
            continue
        for k, i in enumerate(want_subs):
            g, w = got[k], want[k]
            if pathref.flatten(g) != pathref.flatten(w):
                out.fail('%s: query result differs from the evaluation of the path over the nested JSON' % what, expr=expr,
                         subset=i, got=g, expected=w)
                break
            if pathref.prune(g) != pathref.prune(w):
                out.fail('%s: list nesting of the result does not mirror the replications traversed' % what, expr=expr,
                         subset=i, got=g, expected=w)
                break
        # the same path through a querent whose parser was built with bare_id_matches_all=False (documented option): a
        # component -- and the subset selector -- without a slice then stands for the first match only; an explicit slice,
        # "[:]" and "[::]" included, means what it says
        if what.startswith('plain'):
            sspec0 = sspec if sspec is not None else ('idx', 0)
            comps0 = [(c[0], c[1], c[2] if c[2] is not None else ('idx', 0)) for c in comps]
            try:
                subs0 = expected_subsets(sspec0, n)
                want0 = [pathref.evaluate(nj[i], comps0) for i in subs0]
            except pathref.NotEvaluable:
                want0 = None
            o0 = sut.call(lambda: _Q0.query(msg, expr)) if want0 is not None else None
            if o0 is not None and o0.ok:
                out.classes.append('first_match_parser_option')
                got0 = sut.norm_json(o0.value.all_values())
                if list(o0.value.subset_indices()) != subs0:
                    out.fail('%s: parser option bare_id_matches_all=False: wrong subsets selected' % what, expr=expr,
                             got=list(o0.value.subset_indices()), expected=subs0)
                elif [pathref.flatten(g) for g in got0] != [pathref.flatten(w) for w in want0]:
                    out.fail('%s: parser option bare_id_matches_all=False: result differs from the evaluation of the path (no slice = '
                             'first match, explicit slices as written)' % what, expr=expr, got=got0, expected=want0)
            elif o0 is not None and not isinstance(o0.exc, QueryError):
                out.fail('%s: parser option bare_id_matches_all=False: query raised %s@%s' % (what, o0.exc_type, o0.frame), expr=expr, error=o0.msg)
        if any(c[2] is not None and c[2][0] == 'slice' and c[2][3] is not None and c[2][3] < 0 for c in comps):
            out.classes.append('negative_step_slice')
        if any(c[0] == '.' for c in comps):
            out.classes.append('attribute_step')
        if any(pathref.flatten(w) for w in want):
            out.classes.append('non_empty_result')
        if any(isinstance(x, list) for w in want for x in w):
            out.classes.append('through_replication')
    for ident in qc.bare:
        for expr in (ident, '> ' + ident):
            o, got, qr = run_query(msg, expr)
            if not o.ok:
                if isinstance(o.exc, QueryError) and any(has_valueless_node(nj[i], ident) for i in range(n)):
                    # the ID also occurs as an element that 221YYY marks "data not present": a node without a value, which
                    # the library refuses to query -- not "an ordinary element" in the sense of the statement
                    out.classes.append('bare_id_also_occurs_without_value')
                    continue
                out.fail('%s: bare-ID query raised %s@%s' % (what, o.exc_type, o.frame), expr=expr, error=o.msg)
                continue
            gf = sut.norm_json(qr.all_values(flat=True))
            if len(gf) != n:
                out.fail('%s: a bare-ID query does not cover every subset of the message' % what, expr=expr, n_got=len(gf), n_subsets=n,
                         subset_indices=list(qr.subset_indices()))
                continue
            for i in range(n):
                w = [v for l, v in zip(labels[i], flat_values[i]) if l == ident]
                if gf[i] != w:
                    out.fail('%s: the bare ID of an ordinary element does not return every value carrying that ID, in order' % what,
                             expr=expr, subset=i, got=gf[i], expected=w)
                    break
        out.classes.append('bare_id')


def check_case(qc):
    out = Outcome()
    case = qc.case
    n = case.nsub
    out.classes = ['compressed' if case.compressed else 'uncompressed'] + (['same_id_at_several_depths'] if 'same_id_at_several_depths' in case.features else [])
    results = {}
    for kind in ('plain', 'compiled'):
        o = sut.call(decoder(kind).process, case.bytes)
        if not o.ok:
            return out.fail('message does not decode: %s@%s' % (o.exc_type, o.frame), error=o.msg)
        msg = o.value
        nj = sut.nested_template_data(msg)
        ob = sut.observe(msg)
        flat_values = sut.norm_json(ob['values'])
        check_paths(out, '%s decoder' % kind, msg, nj, ob['labels'], flat_values, qc, n)
        results[kind] = msg
    # the same data stored the other way gives the same results
    same_structure = len(set(repr(l) for l in case.labels())) == 1
    if same_structure and n >= 1:
        try:
            twin = gmsg.recompress(case, not case.compressed)
        except (IllFormed, Unsupported):
            twin = None
        if twin is not None:
            o = sut.call(decoder().process, twin.bytes)
            if o.ok:
                out.classes.append('stored_both_ways')
                for stext, sspec, comps, text in qc.paths:
                    expr = (stext + text) if stext else text
                    a = sut.call(lambda: sut.norm_json(_Q.query(results['plain'], expr).all_values()))
                    b = sut.call(lambda: sut.norm_json(_Q.query(o.value, expr).all_values()))
                    if a.ok != b.ok and not expected_subsets(sspec, n) and isinstance((a if not a.ok else b).exc, QueryError):
                        # nothing is selected: the uncompressed evaluation visits no subset, the compressed one still walks the
                        # shared tree and may meet a node without such sub-nodes (outside the statement, as in check_paths)
                        out.classes.append('library_query_error_on_empty_selection')
                        continue
                    if a.ok != b.ok or (a.ok and a.value != b.value):
                        out.fail('query result depends on whether the data is stored compressed', expr=expr,
                                 first=repr(a)[:200] if not a.ok else a.value, second=repr(b)[:200] if not b.ok else b.value)
                        break
    out.classes = sorted(set(out.classes))
    out.nontrivial = bool({'through_replication', 'attribute_step', 'negative_step_slice'} & set(out.classes))
    return out


def check_corpus(item):
    f, j, b = item
    from checks.c01 import CorpusCase
    from vlib.choose import Chooser
    cc = CorpusCase(f, j, b)
    out = Outcome()
    out.classes = ['corpus']
    o = sut.call(decoder().process, b)
    if not o.ok:
        return cc, None, 'does not decode'
    msg = o.value
    nj = sut.nested_template_data(msg)
    ob = sut.observe(msg)
    n = len(nj)
    h = int(hashlib.sha1(b).hexdigest()[:12], 16)
    ch = Chooser(replay=[(h >> (k % 36)) & 0xfff for k in range(600)])
    paths = []
    for _ in range(12):
        comps, text = gen_path(ch, nj[ch.int(0, n - 1)])
        if comps:
            stext, sspec = gen_selector(ch, n)
            paths.append((stext, sspec, comps, text))
    ids = ordinary_ids(nj)
    bare = [ids[(h >> 5) % len(ids)], ids[(h >> 11) % len(ids)]] if ids else []

    class Q(object):
        pass
    q = Q()
    q.paths, q.bare = paths, bare
    check_paths(out, 'corpus', msg, nj, ob['labels'], sut.norm_json(ob['values']), q, n)
    out.classes = sorted(set(out.classes))
    out.nontrivial = True
    for clause, detail in out.failures:
        detail['corpus_file'] = f
    return cc, out, None


def gen_opts(tier):
    opts = gmsg.GenOpts(tier)
    opts.template = gtemplates.Opts(max_ids=18 if tier == 'quick' else 30, w_rep=4, w_204=3, w_bitmap=3)
    opts.max_subsets = 4
    opts.extra_widths = False
    return opts


# ---- coverage-guided stage: the same generator and oracle, decisions taken from fuzzer bytes (vlib.fuzz) ----
_FUZZ_OPTS = gen_opts('quick')


def _fuzz_gen(ch):
    return gen_case(ch, _FUZZ_OPTS, 8)


fuzz_case = fuzz.structured_target(_fuzz_gen, check_case)


def run(tier, seed):
    rep = Report(PID, tier, seed, 'exploration')
    n_paths = 8 if tier == 'quick' else 12
    rep.rule = ('C01/C07 messages (1..4 subsets, compressed or not) x %d paths each, generated as random walks of <= 6 child / attribute '
                'steps over the message\'s own nested JSON with slices {none, [k], [-k], [a:b], [a:b:c], [::-1]} sized around the number '
                'of same-ID siblings, an optional "@" selector and occasional non-existent IDs, plus the bare IDs of up to 3 ordinary '
                'elements; evaluated with a plain and a compiling decoder and, where all subsets share one structure, on the same data '
                'stored the other way; sample-corpus messages x 12 paths.  Non-trivial = a path that crosses a replication or an '
                'attribute step or has a negative-step slice.' % n_paths)
    rep.assumptions = ['reference = refbufr.pathref.evaluate over the nested JSON rendering (whose structure C07 compares with the reference model)',
                       'nested results are compared flattened (exact) and nested modulo empty lists (DESIGN 10-5)',
                       'paths whose evaluation enters a node without such sub-nodes (the library raises QueryError) are outside the statement']
    workers = runner.tier_workers(tier)
    std.replay_files(rep, PID, check_case, QCase.from_json)
    opts = gen_opts(tier)
    n = 1200 if tier == 'quick' else 30000
    runner.run_generated(rep, lambda ch: gen_case(ch, opts, n_paths), check_case, n, workers)
    stride = 25 if tier == 'quick' else 1
    items = corpusio.messages(stride=stride, offset=seed)
    res = runner.run_enumerated(items, check_corpus, workers, chunk=2)
    std.add_results(rep, res, 'corpus')
    rep.required_classes = ['through_replication', 'attribute_step', 'negative_step_slice', 'non_empty_result', 'bare_id',
                            'stored_both_ways', 'compressed', 'uncompressed', 'corpus']
    fuzz.run_structured(rep, 'checks.c16', _fuzz_gen, tier)
    return rep.finish()


def replay(path):
    with open(path) as f:
        d = json.load(f)
    if 'corpus_file' in d['case']:
        c = d['case']
        cc, out, excl = check_corpus((c['corpus_file'], c['message_index'], bytes.fromhex(c['bytes_hex'])))
        fails = out.failures if out else []
        for clause, detail in fails:
            print('VIOLATION property=%s replay=%s' % (PID, path))
            print('  clause: %s detail: %s' % (clause, json.dumps(runner.jsonable(detail))[:600]))
        return 1 if fails else 0
    return std.replay_main(PID, path, check_case, QCase.from_json)
