"""C13 -- no hidden state: results do not depend on what was processed before.

A history is a generated list of operations (decode, metadata-only decode, failing decode,
encode, render, query, re-wire, subset) over up to three decoder / encoder objects with
compiled-template caches of size None/0/1/2/200 and over a pool of messages that use more
table versions than the (forced small) table-group cache holds.  It runs in a forked child of a
process that has never used the library; the baseline of every message is taken in its own
forked child of that same pristine process (the state of a fresh interpreter).  After every
operation its complete observation is compared with the baseline."""
import hashlib
import json

from vlib import runner, sut, std, encutil, forkexec
from vlib.runner import Outcome, Report, Reject
from gen import messages as gmsg, templates as gtemplates, pool as gpool
from refbufr import tables as rtables, tree as rtree

PID = 'C13'
CACHE_SIZES = [None, 0, 1, 2, 200]
TABLE_LIMITS = [1, 2, 3, None]


# ---- observations (executed inside forked children only) ---------------------------------------------------
def _h(x):
    return hashlib.sha1(x if isinstance(x, bytes) else repr(x).encode('utf-8', 'backslashreplace')).hexdigest()[:16]


def observe_message(m, with_renderings=True):
    ob = sut.observe(m)
    d = {'values': ob['values'], 'labels': ob['labels'], 'links': ob['links'], 'bytes': m.serialized_bytes}
    if with_renderings:
        d['flat_text'] = _h(sut.FlatTextRenderer().render(m))
        d['nested_text'] = _h(sut.NestedTextRenderer().render(m))
        d['flat_json'] = _h(json.dumps(sut.norm_json(sut.FlatJsonRenderer().render(m)), sort_keys=True))
        d['nested_json'] = _h(json.dumps(sut.norm_json(sut.NestedJsonRenderer().render(m)), sort_keys=True))
    return d


def md_observation(m):
    return [(s.get_metadata('index'), [(p.name, p.value) for p in s]) for s in m.sections if s.get_metadata('index') <= 3]


def first_query(m, querent=None):
    """the bare-ID query for the first ordinary element of the message; through `querent` when given (a querent and its
    parser object are meant to be reused), else through a new one"""
    from pybufrkit.dataquery import NodePathParser, DataQuerent
    labels = [str(d) for d in m.template_data.value.decoded_descriptors_all_subsets[0]]
    ident = next((l for l in labels if l[0] == '0' and l[1:3] != '31'), None)
    if ident is None:
        return None
    q = querent if querent is not None else DataQuerent(NodePathParser())
    o = sut.call(lambda: q.query(m, ident).all_values(flat=True))
    return ('ok', o.value) if o.ok else ('error', o.exc_type)


# expressions the path parser rejects, several of them after it has collected part of a slice
BAD_QUERIES = ['/001001[1:', '@[1:', '001001[1:x]', '001001[2]x', '@[0', '/[', '@[1:2:3:4]/001001', '001001[', '@/', '/001001[1:2',
               '@[-1', '001001.[3]']


def baseline_of(b, flat):
    """everything observable about one message, computed in a process that has done nothing else"""
    out = {}
    o = sut.call(sut.Decoder().process, b)
    if o.ok:
        out['decode'] = ('ok', observe_message(o.value))
        out['query'] = first_query(o.value)
        s = sut.call(lambda: sut.Encoder().process(o.value.subset([0])).serialized_bytes)
        out['subset'] = ('ok', s.value) if s.ok else ('error', s.exc_type)
    else:
        out['decode'] = ('error', o.exc_type)
    o = sut.call(sut.Decoder().process, b, info_only=True)
    out['info'] = ('ok', md_observation(o.value)) if o.ok else ('error', o.exc_type)
    if flat is not None:
        o = sut.call(sut.Encoder().process, flat)
        out['encode'] = ('ok', o.value.serialized_bytes) if o.ok else ('error', o.exc_type)
    return out


def run_history(pool, ops, coder_caches, table_limit):
    """executed in a forked child: returns None or the first divergence"""
    import pybufrkit.tables as T
    if table_limit is not None:
        T.MAXIMUM_NUMBER_OF_CACHED_TABLE_GROUPS = table_limit
    decs, encs = [], []
    if len(ops) % 2 == 0:
        # an encoder that was told to replace the table numbers it writes exists in the process (and is never used)
        sut.Encoder(master_table_number=3, master_table_version=29)
    for c in coder_caches:
        decs.append(sut.Decoder() if c is None else sut.Decoder(compiled_template_cache_max=c))
        encs.append(sut.Encoder() if c is None else sut.Encoder(compiled_template_cache_max=c))
    kept = {}          # message index -> a decoded message object kept for later render / query / wire operations
    from pybufrkit.dataquery import NodePathParser, DataQuerent
    querent = DataQuerent(NodePathParser())      # one querent (and parser) for the whole history
    for step, op in enumerate(ops):
        kind, j, i = op[0], op[1], op[2]
        p = pool[i]
        base = p['baseline']

        def div(piece, got, expected):
            return {'step': step, 'operation': list(op), 'piece': piece, 'got': got, 'expected': expected,
                    'message': i, 'history': [list(x) for x in ops[:step + 1]]}
        if kind in ('decode', 'fail'):
            o = sut.call(decs[j].process, p['bytes'])
            want = base['decode']
            if o.ok:
                if want[0] != 'ok':
                    return div('decode outcome', 'ok', want)
                got = observe_message(o.value)
                for k in ('values', 'labels', 'links', 'bytes', 'flat_text', 'nested_text', 'flat_json', 'nested_json'):
                    if got[k] != want[1][k]:
                        return div(k, got[k] if k in ('flat_text', 'nested_text', 'flat_json', 'nested_json') else _first_diff(got[k], want[1][k]),
                                   None)
                kept[i] = o.value
            else:
                if want[0] == 'ok' or want[1] != o.exc_type:
                    return div('decode outcome', '%s: %s @%s' % (o.exc_type, o.msg, o.frame), want if want[0] != 'ok' else 'ok')
        elif kind == 'lenient':
            # the documented lenient mode (signatures not validated), e.g. a retry on a file that failed: whatever it
            # returns for a damaged message, a valid one decodes as always -- and the coder is as strict as before afterwards
            o = sut.call(decs[j].process, p['bytes'], ignore_value_expectation=True)
            want = base['decode']
            if want[0] == 'ok':
                if not o.ok:
                    return div('lenient decode outcome', '%s: %s @%s' % (o.exc_type, o.msg, o.frame), 'ok')
                got = observe_message(o.value)
                for k in ('values', 'labels', 'links', 'bytes', 'flat_json'):
                    if got[k] != want[1][k]:
                        return div('lenient decode: ' + k, _first_diff(got[k], want[1][k]) if k != 'flat_json' else None, None)
        elif kind == 'info':
            o = sut.call(decs[j].process, p['bytes'], info_only=True)
            want = base['info']
            got = ('ok', md_observation(o.value)) if o.ok else ('error', o.exc_type)
            if got != want:
                return div('metadata-only decode', got, want)
        elif kind == 'encode':
            if p['flat'] is None:
                continue
            o = sut.call(encs[j].process, p['flat'])
            want = base['encode']
            got = ('ok', o.value.serialized_bytes) if o.ok else ('error', o.exc_type)
            if got != want:
                return div('encode', got if not o.ok else 'other bytes (%d)' % len(got[1]), want if want[0] != 'ok' else 'bytes (%d)' % len(want[1]))
        elif kind == 'scan':
            # one scanner call over: the longest message of the pool, this message with its section 1 length zeroed (the
            # header cannot be decoded; total length intact), this message -- with continue-on-error and a filter that
            # holds for every message.  What follows the failed message is delivered whatever was handled before it.
            import contextlib
            import io
            goods = [q for q in pool if q['flat'] is not None and q['baseline']['decode'][0] == 'ok']
            if base['decode'][0] != 'ok' or p['flat'] is None or b'BUFR' in p['bytes'][4:] or not goods:
                continue
            longest = max(goods, key=lambda q: len(q['bytes']))['bytes']
            broken = p['bytes'][:8] + b'\x00\x00\x00' + p['bytes'][11:]
            stream = longest + b'\r\r\n' + broken + b'\r\r\n' + p['bytes']
            with contextlib.redirect_stderr(io.StringIO()):
                o = sut.call(lambda: [m.serialized_bytes for m in sut.generate_bufr_message(
                    decs[j], stream, continue_on_error=True, filter_expr='${%edition} > 0')])
            want = [longest, p['bytes']]
            if not o.ok:
                return div('scan with a filter and continue-on-error over (longest message, message with a broken header, message)',
                           '%s: %s @%s' % (o.exc_type, o.msg, o.frame), 'two messages')
            if o.value != want and b'BUFR' not in longest[4:]:
                return div('scan with a filter and continue-on-error over (longest message, message with a broken header, message)',
                           [len(x) for x in o.value], [len(x) for x in want])
        elif kind == 'badquery':
            m = kept.get(i) or next(iter(kept.values()), None)
            if m is not None:
                sut.call(lambda: querent.query(m, BAD_QUERIES[j % len(BAD_QUERIES)]))       # fails; must leave nothing behind
        elif kind in ('render', 'rewire', 'query', 'subset'):
            m = kept.get(i)
            if m is None or base['decode'][0] != 'ok':
                continue
            if kind == 'rewire':
                o = sut.call(m.wire)
                if not o.ok:
                    return div('wiring again', '%s: %s' % (o.exc_type, o.msg), 'no error')
            if kind in ('render', 'rewire'):
                o = sut.call(observe_message, m)
                if not o.ok:
                    return div('rendering a kept message', '%s: %s' % (o.exc_type, o.msg), 'no error')
                for k in ('values', 'labels', 'links', 'flat_text', 'nested_text', 'flat_json', 'nested_json'):
                    if o.value[k] != base['decode'][1][k]:
                        return div('%s of a message object decoded earlier' % k, None, None)
            elif kind == 'query':
                got = first_query(m, querent)
                if got != base['query']:
                    return div('query on a message object decoded earlier', got, base['query'])
            else:
                s = sut.call(lambda: encs[j].process(m.subset([0])).serialized_bytes)
                got = ('ok', s.value) if s.ok else ('error', s.exc_type)
                if got != base['subset']:
                    return div('subset of a message object decoded earlier', got if not s.ok else 'other bytes', None)
    return None


def _first_diff(a, b):
    if isinstance(a, list) and isinstance(b, list):
        if len(a) != len(b):
            return ('len', len(a), len(b))
        for i, (x, y) in enumerate(zip(a, b)):
            if x != y or type(x) is not type(y):
                d = _first_diff(x, y)
                return (i,) + (d if isinstance(d, tuple) else (d,))
        return None
    return (a, b)


# ---- cases ----------------------------------------------------------------------------------------------------
class HistCase(object):
    def __init__(self, cases, damaged, ops, coder_caches, table_limit):
        """cases: message cases; damaged: [(index of base case, cut position or None for stop-signature damage)]"""
        self.cases, self.damaged, self.ops, self.coder_caches, self.table_limit = cases, damaged, ops, coder_caches, table_limit

    def pool(self):
        out = []
        for c in self.cases:
            out.append({'bytes': c.bytes, 'flat': encutil.flat_json_of_case(c)})
        for i, cut in self.damaged:
            b = self.cases[i].bytes
            out.append({'bytes': (b[:-4] + b'777x') if cut is None else b[:cut], 'flat': None})
        return out

    def key(self):
        return hashlib.sha1(('|'.join(c.key() for c in self.cases) + repr((self.damaged, self.ops, self.coder_caches, self.table_limit))).encode()).hexdigest()[:20]

    def summary(self):
        return {'messages': [{'descriptors': ['%06d' % i for i in c.ids][:10], 'master_table_version': c.meta['master_table_version'],
                              'local_table_version': c.meta['local_table_version'], 'compressed': c.compressed} for c in self.cases],
                'damaged_variants': self.damaged, 'operations': self.ops[:20], 'n_operations': len(self.ops),
                'coder_caches': self.coder_caches, 'table_cache_limit': self.table_limit}

    def to_json(self):
        return {'cases': [c.to_json() for c in self.cases], 'damaged': self.damaged, 'ops': self.ops,
                'coder_caches': self.coder_caches, 'table_limit': self.table_limit}

    @staticmethod
    def from_json(d):
        return HistCase([gmsg.Case.from_json(c) for c in d['cases']], [tuple(x) for x in d['damaged']],
                        [tuple(x) for x in d['ops']], list(d['coder_caches']), d['table_limit'])


def gen_hist(ch, opts, real_limit=False):
    n = ch.int(2, 6) if not real_limit else 56
    cases = []
    versions = rtables.available_master_versions()
    if real_limit:
        # 55+ distinct table groups: every master version, plus local tables on some
        keys = [(v, None) for v in versions] + [(v, loc) for v in versions[-20:] for loc in [(98, 0, 1)]]
        for v, loc in keys[:56]:
            o2 = gmsg.GenOpts('quick')
            o2.versions = [v]
            o2.local_tables = False
            o2.template = gtemplates.Opts(max_ids=4, bitmaps=False)
            o2.max_subsets = 1
            c = gmsg.gen_case(ch, o2)
            if loc:
                c.meta['originating_centre'], c.meta['originating_subcentre'], c.meta['local_table_version'] = loc
                gmsg.build_bytes(c)
            cases.append(c)
    else:
        for _ in range(n):
            if cases and ch.bool(1, 5):
                # the same template on another master table version: a compiled-cache key that differs only in the table group
                base = ch.choice(cases)
                d = base.to_json()
                d['meta']['master_table_version'] = ch.choice(opts.versions or versions)
                try:
                    c = gmsg.Case.from_json(d)
                    # a descriptor that the other version does not define (possibly in a body that runs zero times) makes
                    # the message ill-formed: compiled and interpreted decoding then differ by design (C08 / C14), not by history
                    if not c.decoded.ambiguous() and not rtree.has_undefined(c.tree):
                        c.features.add('same_template_other_table_version')
                        cases.append(c)
                        continue
                except Exception:
                    pass
            if cases and ch.bool(1, 5):
                # a near twin: the same unexpanded list except for one element inside a replication body (a compiled-cache
                # key that must look into the replications)
                twin = gmsg.near_twin(ch, ch.choice(cases))
                if twin is not None:
                    cases.append(twin)
                    continue
            if ch.bool(1, 6) and len(cases) + 2 <= n:
                # twins: one WMO sequence on one master version, once with and once without a local table that
                # re-defines something the sequence reaches (two table groups that share their WMO part)
                mv = ch.choice(opts.versions or versions)
                seqs = gpool.override_sequences(mv, (98, 0, 101))
                if seqs:
                    sid = ch.choice(seqs)
                    try:
                        pair = [gmsg.gen_case(ch, opts, fixed=(mv, loc, [sid])) for loc in ((98, 0, 101), None)]
                    except Reject:
                        pair = []
                    for c in pair:
                        c.features.add('same_sequence_with_and_without_local_table')
                    cases.extend(pair if ch.bool() else pair[::-1])
                    continue
            if ch.bool(1, 5) and len(cases) + 2 <= n:
                # twins: an element that two master table versions define with the same width but another scale or
                # reference value, in the same small template on both versions
                vs = opts.versions or versions
                v1 = ch.choice(vs)
                cands = [(v2, gpool.version_diff_elements(min(v1, v2), max(v1, v2))) for v2 in vs if v2 != v1]
                cands = [(v2, e) for v2, e in cands if e]
                if cands:
                    v2, elems = ch.choice(cands)
                    e = ch.choice(elems)
                    b2 = gpool.pool_for(v2).tables.B
                    other = ch.choice(gpool.pool_for(v1).num_all)
                    ids = [e] if (ch.bool() or other not in b2) else [other, e, e]
                    if ch.bool(1, 2):
                        # and statistics about it: the marker value takes scale and reference of the element it refers to
                        ids = [e, e, 224000, 101002, 31031, 8023, 101000, 31001, 224255]
                    try:
                        pair = [gmsg.gen_case(ch, opts, fixed=(v, None, ids)) for v in (v1, v2)]
                    except Reject:
                        pair = []
                    for c in pair:
                        c.features.add('same_element_other_scale_or_reference')
                    cases.extend(pair)
                    continue
            if ch.bool(1, 6):
                # a message that names tables which are not installed: the decoder falls back (default master version, the
                # centre's sub-centre 0, or no local table), the encoder takes the numbers literally and refuses -- in a fresh
                # process and therefore after any history
                o2 = gmsg.GenOpts('quick')
                o2.versions, o2.local_tables, o2.max_subsets, o2.extra_widths = [33], False, 2, False
                o2.template = gtemplates.Opts(max_ids=6)
                try:
                    d = gmsg.gen_case(ch, o2).to_json()
                    relabel = ch.choice([{'master_table_version': 42}, {'master_table_version': 99},
                                         {'originating_centre': 98, 'originating_subcentre': 70, 'local_table_version': 1},
                                         {'originating_centre': 7, 'originating_subcentre': 0, 'local_table_version': 5}])
                    if d['meta']['edition'] == 2:
                        relabel.pop('originating_subcentre', None)
                    d['meta'].update(relabel)
                    c = gmsg.Case.from_json(d)
                    if not c.decoded.ambiguous() and not rtree.has_undefined(c.tree):
                        c.features.add('names_tables_that_are_not_installed')
                        cases.append(c)
                        continue
                except Reject:
                    raise
                except Exception:
                    pass
            cases.append(gmsg.gen_case(ch, opts))
    damaged = []
    for _ in range(ch.int(0, 2)):
        i = ch.int(0, len(cases) - 1)
        b = cases[i].bytes
        if ch.bool(1, 4):
            damaged.append((i, None))
        else:
            lo = cases[i].info['offsets'][4] + 4
            damaged.append((i, ch.int(min(lo, len(b) - 5), len(b) - 5)))
    n_pool = len(cases) + len(damaged)
    n_coders = ch.int(1, 3)
    coder_caches = [ch.choice(CACHE_SIZES) for _ in range(n_coders)]
    table_limit = None if real_limit else ch.choice(TABLE_LIMITS)
    ops = []
    n_ops = ch.int(3, 30) if not real_limit else 120
    for _ in range(n_ops):
        i = ch.int(0, n_pool - 1)
        j = ch.int(0, n_coders - 1)
        if i >= len(cases):
            kind = ch.choice(['fail', 'fail', 'info', 'lenient'])
        else:
            kind = ch.weighted([(6, 'decode'), (2, 'encode'), (1, 'info'), (1, 'render'), (1, 'rewire'), (2, 'query'), (1, 'subset'),
                                (1, 'badquery'), (1, 'lenient'), (1, 'scan')])
        if kind == 'badquery':
            ops.append((kind, ch.int(0, len(BAD_QUERIES) - 1), i))
            if ch.bool(2, 3):
                ops.append(('query', j, i))        # the next query through the same querent
            continue
        ops.append((kind, j, i))
    # twins are decoded one after the other by one coder at least once (whatever else the history does)
    twin_idx = [k for k, c in enumerate(cases) if 'same_element_other_scale_or_reference' in c.features
                or 'same_sequence_with_and_without_local_table' in c.features]
    near = [k for k, c in enumerate(cases) if 'near_twin_template' in c.features]
    if near and not real_limit:
        # a near twin and the message it was derived from, back to back on one coder (any earlier message with the same
        # top-level descriptors will do)
        k = ch.choice(near)
        same_top = [x for x in range(len(cases)) if x != k and len(cases[x].ids) == len(cases[k].ids)
                    and cases[x].ids[0] == cases[k].ids[0] and cases[x].meta == cases[k].meta]
        if same_top:
            j = ch.int(0, n_coders - 1)
            pos = ch.int(0, len(ops))
            pair = [same_top[0], k] if ch.bool() else [k, same_top[0]]
            ops[pos:pos] = [('decode', j, x) for x in pair] + [('encode', j, x) for x in pair]
    for k in [k for k, c in enumerate(cases) if 'names_tables_that_are_not_installed' in c.features]:
        # decoded and encoded back to back, in either order (the two resolve the table numbers differently)
        pos = ch.int(0, len(ops))
        pair = [('decode', ch.int(0, n_coders - 1), k), ('encode', ch.int(0, n_coders - 1), k)]
        ops[pos:pos] = pair if ch.bool() else pair[::-1]
    if twin_idx and not real_limit:
        j = ch.int(0, n_coders - 1)
        pos = ch.int(0, len(ops))
        ops[pos:pos] = [('decode', j, k) for k in (twin_idx if ch.bool() else twin_idx[::-1])]
    if real_limit:
        # first touch every group once, then revisit the early ones
        ops = [('decode', 0, i) for i in range(len(cases))] + [('decode', 0, i) for i in range(0, 12)] + ops[:40]
    return HistCase(cases, damaged, ops, coder_caches, table_limit)


def group_key(c):
    return (c.meta['master_table_version'], c.meta['originating_centre'], c.meta['originating_subcentre'], c.meta['local_table_version'])


def classify(hc):
    """which kinds of forgetting does the history exercise?"""
    classes = set()
    n_cases = len(hc.cases)
    limit = hc.table_limit or 50
    seen_groups = []
    last_visit = {}
    templates_seen = {}
    failed_since = {}
    any_fail = False
    for step, (kind, j, i) in enumerate(hc.ops):
        base_i = i if i < n_cases else hc.damaged[i - n_cases][0]
        g = group_key(hc.cases[base_i])
        if kind in ('decode', 'encode', 'fail', 'subset'):
            if g in seen_groups:
                seen_groups.remove(g)
            seen_groups.append(g)
        if kind == 'badquery':
            classes.add('failed_query')
        if kind == 'scan':
            classes.add('scan_over_a_message_with_a_broken_header')
        if kind == 'lenient':
            classes.add('lenient_decode')
            if any(kk == 'fail' and jj == j and x >= n_cases and hc.damaged[x - n_cases][1] is None for (kk, jj, x) in hc.ops[step + 1:]):
                classes.add('strict_decode_of_a_damaged_signature_after_a_lenient_decode')
        if kind == 'fail':
            any_fail = True
            classes.add('failed_operation')
        if i < n_cases and kind == 'decode':
            if i in last_visit:
                groups_between = set(group_key(hc.cases[x if x < n_cases else hc.damaged[x - n_cases][0]])
                                     for (_, _, x) in hc.ops[last_visit[i] + 1:step])
                if len(groups_between - {g}) >= limit:
                    classes.add('revisit_after_table_eviction')
                tmpl_between = set((tuple(hc.cases[x].ids), group_key(hc.cases[x])) for (kk, jj, x) in hc.ops[last_visit[i] + 1:step]
                                   if x < n_cases and jj == j and kk in ('decode', 'encode'))
                c = hc.coder_caches[j]
                if c in (1, 2) and len(tmpl_between - {(tuple(hc.cases[i].ids), g)}) >= c:
                    classes.add('revisit_after_compiled_eviction')
                if any(kk == 'fail' for (kk, _, _) in hc.ops[last_visit[i] + 1:step]):
                    classes.add('revisit_after_failure')
            last_visit[i] = step
    return classes


def check_hist(hc):
    out = Outcome()
    cls = classify(hc)
    if any('same_element_other_scale_or_reference' in c.features for c in hc.cases):
        cls.add('twins_same_width_other_scale_or_reference')
    if any('same_sequence_with_and_without_local_table' in c.features for c in hc.cases):
        cls.add('twins_with_and_without_local_table')
    if any('near_twin_template' in c.features for c in hc.cases):
        cls.add('templates_that_differ_only_inside_a_replication')
    if any('names_tables_that_are_not_installed' in c.features for c in hc.cases):
        cls.add('message_names_tables_that_are_not_installed')
    out.classes = sorted(cls) + ['table_limit_%s' % (hc.table_limit or 'real')] + sorted(set('coder_cache_%s' % c for c in hc.coder_caches))
    out.nontrivial = bool(cls & {'revisit_after_table_eviction', 'revisit_after_compiled_eviction', 'revisit_after_failure'})
    pool = hc.pool()
    try:
        for p in pool:
            p['baseline'] = forkexec.run(baseline_of, p['bytes'], p['flat'])
        d = forkexec.run(run_history, pool, hc.ops, hc.coder_caches, hc.table_limit, _timeout=300)
    except forkexec.ChildFailed as e:
        raise runner.HarnessError('forked child failed: %s' % str(e)[:600])
    if d is not None:
        out.fail('an operation gives another result than on a fresh process (%s)' % d['piece'], **d)
    return out


def gen_opts(tier):
    opts = gmsg.GenOpts(tier)
    opts.versions = [13, 19, 25, 33, 40, 16, 29, 37] if tier == 'quick' else None
    opts.template = gtemplates.Opts(max_ids=10)
    opts.max_subsets = 3
    opts.extra_widths = False
    return opts


def run(tier, seed):
    rep = Report(PID, tier, seed, 'exploration')
    rep.rule = ('histories of 3..30 operations {decode, metadata-only decode, failing decode (truncated / stop signature damaged), encode, '
                'render, query, wire again, subset} over 1..3 decoder+encoder objects with compiled-template caches in {none,0,1,2,200} and '
                'over 2..6 generated messages on 8 (thorough: all 36) master table versions + local tables, table-group cache limit forced to '
                '{1,2,3} or left at 50; every operation\'s observation (values, labels, links, bytes, four renderings, query, subset, '
                'metadata, error class) is compared with the baseline of that message from a forked child of a pristine process.  '
                'Thorough adds histories over 56 distinct table groups at the real limit of 50.  Non-trivial = a message is revisited after '
                'a table-group eviction, a compiled-template eviction, or a failed operation.')
    rep.assumptions = ['a forked child of a process that never called into the library has the state of a fresh interpreter',
                       'no table-definition message is in the pool (C20)']
    workers = runner.tier_workers(tier)
    std.replay_files(rep, PID, check_hist, HistCase.from_json)
    opts = gen_opts(tier)
    n = 400 if tier == 'quick' else 10000
    runner.run_generated(rep, lambda ch: gen_hist(ch, opts), check_hist, n, workers, shrink_s=60 if tier == 'quick' else 300)
    if tier == 'thorough':
        runner.run_generated(rep, lambda ch: gen_hist(ch, opts, real_limit=True), check_hist, 48, workers, stage='real table-cache limit',
                             shrink_s=120)
    else:
        runner.run_generated(rep, lambda ch: gen_hist(ch, opts, real_limit=True), check_hist, 2, 2, stage='real table-cache limit',
                             shrink_s=1)
    rep.required_classes = ['revisit_after_table_eviction', 'revisit_after_compiled_eviction', 'revisit_after_failure',
                            'table_limit_real', 'table_limit_1', 'coder_cache_1', 'coder_cache_None']
    return rep.finish()


def replay(path):
    return std.replay_main(PID, path, check_hist, HistCase.from_json)
