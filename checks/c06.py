"""C06 -- subsets of an uncompressed message are decoded independently of each other.

Metamorphic: decode s1..sn together vs each si alone vs a permutation (all bytes built by
the reference), comparing values, labels, links and the per-subset hierarchical view; the
encoder side must give the reference bytes (concatenation of the single-subset data)."""
from vlib import runner, sut, std, encutil, fuzz
from vlib.compare import first_value_diff
from vlib.runner import Outcome, Report
from gen import messages as gmsg, templates as gtemplates
from checks.c07 import nested_diff

PID = 'C06'
_DEC = None
_ENC = None


def decoder():
    global _DEC
    if _DEC is None:
        _DEC = sut.Decoder()
    return _DEC


def encoder():
    global _ENC
    if _ENC is None:
        _ENC = sut.Encoder()
    return _ENC


_CDEC = None
_CENC = None


def compiled_decoder():
    global _CDEC
    if _CDEC is None:
        _CDEC = sut.Decoder(compiled_template_cache_max=4)
    return _CDEC


def compiled_encoder():
    global _CENC
    if _CENC is None:
        _CENC = sut.Encoder(compiled_template_cache_max=4)
    return _CENC


def subset_raws(case, i):
    fs = case.decoded.fields_of(i)
    return [case.decoded.raw(i, k) for k in range(len(fs)) if fs[k].kind != 'const']


def sub_message(case, order):
    meta = dict(case.meta)
    meta['n_subsets'] = len(order)
    return gmsg.case_from_raws(meta, case.ids, subsets=[subset_raws(case, i) for i in order])


def observe_full(b):
    o = sut.call(decoder().process, b)
    if not o.ok:
        return o, None, None
    return o, sut.observe(o.value), sut.nested_template_data(o.value)


def compare_subset(out, what, a_obs, a_nest, i, b_obs, b_nest, j):
    d = first_value_diff(a_obs['values'][i], b_obs['values'][j])
    if d is not None:
        return out.fail('%s: values differ' % what, subset=i, index=d[0], together=d[1], other=d[2])
    if a_obs['labels'][i] != b_obs['labels'][j]:
        return out.fail('%s: labels differ' % what, subset=i, together=a_obs['labels'][i], other=b_obs['labels'][j])
    if a_obs['links'][i] != b_obs['links'][j]:
        return out.fail('%s: attribute links differ' % what, subset=i, together=a_obs['links'][i], other=b_obs['links'][j])
    d = nested_diff(a_nest[i], b_nest[j])
    if d is not None:
        return out.fail('%s: hierarchical view differs' % what, subset=i, path=d[0], together=d[1], other=d[2])
    return None


def check_case(case):
    out = Outcome()
    feats = set(case.features)
    n = case.nsub
    lens = set(len(case.decoded.fields_of(i)) for i in range(n))
    links = set(repr(sorted(case.decoded.links_of(i).items())) for i in range(n))
    structs = set(repr(case.labels()[i]) for i in range(n))
    differ = len(lens) > 1 or len(links) > 1 or len(structs) > 1
    if differ:
        feats.add('subsets_differ_in_structure')
    out.nontrivial = differ
    out.classes = sorted(feats)
    o, obs, nest = observe_full(case.bytes)
    if not o.ok:
        return out.fail('decode of all subsets together raised %s@%s' % (o.exc_type, o.frame), error=o.msg)
    # against the reference (so that "all wrong in the same way" cannot pass)
    for i in range(n):
        d = first_value_diff(obs['values'][i], case.values()[i])
        if d is not None:
            return out.fail('subset decoded together differs from its data', subset=i, index=d[0], got=d[1], expected=d[2])
        if obs['links'][i] != case.links()[i]:
            return out.fail('links of a subset decoded together differ from the expected ones', subset=i,
                            got=obs['links'][i], expected=case.links()[i])
    # the same through the template-compiling decoder and encoder (for templates in the domain of compilation:
    # operators opened and closed within one replication scope, C08): each subset still decodes to its own data
    if not case.decoded.unbalanced():
        out.classes.append('also_with_template_compilation')
        oc = sut.call(compiled_decoder().process, case.bytes)
        if not oc.ok:
            return out.fail('decode of all subsets together raised %s@%s (template compilation)' % (oc.exc_type, oc.frame), error=oc.msg)
        cobs = sut.observe(oc.value)
        for i in range(n):
            d = first_value_diff(cobs['values'][i], case.values()[i])
            if d is not None:
                return out.fail('subset decoded together differs from its data (template compilation)', subset=i, index=d[0],
                                got=d[1], expected=d[2])
            if cobs['links'][i] != case.links()[i] or cobs['labels'][i] != obs['labels'][i]:
                return out.fail('links / labels of a subset decoded together differ from the expected ones (template compilation)',
                                subset=i, got=cobs['links'][i], expected=case.links()[i])
        oce = sut.call(compiled_encoder().process, encutil.flat_json_of_case(case))
        if not oce.ok or oce.value.serialized_bytes != case.bytes:
            return out.fail('encoded bytes are not the concatenation of the single-subset data sections (template compilation)',
                            error=None if oce.ok else oce.msg)
    # with debug logging switched on (the documented --debug option) the decoder keeps its values in audited lists:
    # what is obtained for each subset must be the same
    if int(case.key()[4:6], 16) % 3 == 0:
        out.classes.append('also_with_debug_logging')
        with sut.debug_logging():
            og, obsg, nestg = observe_full(case.bytes)
        if not og.ok:
            return out.fail('decode of all subsets together raised %s@%s (debug logging on)' % (og.exc_type, og.frame), error=og.msg)
        for i in range(n):
            if compare_subset(out, 'debug logging on vs off', obsg, nestg, i, obs, nest, i):
                return out
    # each subset alone
    for i in range(n):
        single = sub_message(case, [i])
        o1, obs1, nest1 = observe_full(single.bytes)
        if not o1.ok:
            return out.fail('decode of a subset alone raised %s@%s' % (o1.exc_type, o1.frame), subset=i, error=o1.msg)
        if compare_subset(out, 'together vs alone', obs, nest, i, obs1, nest1, 0):
            return out
    # a permutation (rotation + swap of the ends, derived from the case so it is reproducible)
    k = int(case.key()[:4], 16)
    order = list(range(n))
    order = order[k % n:] + order[:k % n]
    if (k >> 4) % 2:
        order.reverse()
    if order != list(range(n)):
        perm = sub_message(case, order)
        o2, obs2, nest2 = observe_full(perm.bytes)
        if not o2.ok:
            return out.fail('decode of permuted subsets raised %s@%s' % (o2.exc_type, o2.frame), order=order, error=o2.msg)
        for pos, i in enumerate(order):
            if compare_subset(out, 'permuted', obs, nest, i, obs2, nest2, pos):
                return out
    # encoder side
    flat = encutil.flat_json_of_case(case)
    oe = sut.call(encoder().process, flat)
    if not oe.ok:
        return out.fail('encode of all subsets together raised %s@%s' % (oe.exc_type, oe.frame), error=oe.msg)
    if oe.value.serialized_bytes != case.bytes:
        return out.fail('encoded bytes are not the concatenation of the single-subset data sections',
                        n_got=len(oe.value.serialized_bytes), n_expected=len(case.bytes))
    # the encoder's message object carries the user's input values (text strings), so only the
    # descriptors and the attribute links are compared with the decoder's
    eobs = sut.observe(oe.value)
    for i in range(n):
        if obs['labels'][i] != eobs['labels'][i]:
            return out.fail('encoder message object: labels differ from the decoder\'s', subset=i)
        if obs['links'][i] != eobs['links'][i]:
            return out.fail('encoder message object: attribute links differ from the decoder\'s', subset=i,
                            decoder=obs['links'][i], encoder=eobs['links'][i])
    return out


def gen(tier):
    opts = gmsg.GenOpts(tier)
    opts.compressed = False
    opts.min_subsets = 2
    opts.max_subsets = 4 if tier == 'quick' else 6
    opts.template = gtemplates.Opts(max_ids=18 if tier == 'quick' else 30, w_bitmap=6, w_rep=4, w_204=3, p_unclosed=(1, 3))
    return lambda ch: gmsg.gen_case(ch, opts)


# ---- coverage-guided stage: the same generator and oracle, decisions taken from fuzzer bytes (vlib.fuzz) ----
_fuzz_gen = gen('quick')


fuzz_case = fuzz.structured_target(_fuzz_gen, check_case)


def gen_opts_opseq(tier):
    o = gmsg.GenOpts(tier)
    o.compressed = False
    o.min_subsets, o.max_subsets = 2, 3
    o.max_fields = 600
    return o


def run(tier, seed):
    rep = Report(PID, tier, seed, 'exploration')
    rep.rule = ('uncompressed messages with 2..n subsets from the C01 generator (replication and bitmap constructs weighted up, '
                'templates may end inside an operator construct); every subset is also decoded alone, and a derived '
                'permutation of the subsets is decoded.  Non-trivial = at least two subsets differ in structure (flat length, '
                'labels or bitmap links).')
    rep.assumptions = ['single-subset and permuted messages are built by the reference model from the same raw values']
    rep.required_classes = ['subsets_differ_in_structure', 'unclosed', 'bitmap', 'delayed_rep', '203_applied', '235',
                            '237000', '204', '221_skipped']
    std.replay_files(rep, PID, check_case, gmsg.Case.from_json)
    n = 3000 if tier == 'quick' else 80000
    runner.run_generated(rep, gen(tier), check_case, n, runner.tier_workers(tier),
                         shrink_s=20 if tier == 'quick' else 120)
    std.run_named(rep, gmsg.same_shape_other_bitmap_cases(), check_case, 'same descriptors, other bitmap', 'same_descriptors_other_bitmap')
    std.run_named(rep, gmsg.unclosed_scope_cases(), check_case, 'template ends inside an operator scope', 'template_ends_inside_an_operator_scope')
    # templates whose section 3 lists no operator at all: the operators sit inside Table D sequences
    so = gen_opts_opseq(tier)
    runner.run_generated(rep, lambda ch: gmsg.gen_opseq_case(ch, so), check_case, 500 if tier == 'quick' else 20000,
                         runner.tier_workers(tier), stage='operators inside sequences')
    rep.required_classes.append('operators_only_inside_table_d_sequences')
    fuzz.run_structured(rep, 'checks.c06', _fuzz_gen, tier)
    return rep.finish()


def replay(path):
    return std.replay_main(PID, path, check_case, gmsg.Case.from_json)
