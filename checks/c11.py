"""C11 -- a byte stream is split into exactly the messages it contains.

Generator: 0..8 reference-built messages (mixed editions, compression, character fields and
section 2 holding 'BUFR' / '7777') x separators without the start signature x {full,
info-only} x optional filter expression over metadata.  Oracle: the message list itself (by
construction), the filter evaluated on the generator's metadata."""
import hashlib
import json
import os

from vlib import runner, sut, std, cli, fuzz
from vlib.runner import Outcome, Report, Reject
from gen import messages as gmsg, streams as gstreams

PID = 'C11'
_DEC = {}


def decoder(kind='plain'):
    if kind not in _DEC:
        _DEC[kind] = sut.Decoder() if kind == 'plain' else sut.Decoder(compiled_template_cache_max=3)
    return _DEC[kind]


class StreamCase(object):
    def __init__(self, cases, seps, filt=None, truth=None):
        self.cases, self.seps = cases, seps
        self.filter = filt                    # expression text or None
        self.truth = truth                    # [bool] per message (reference evaluation) or None
        self.stream, self.spans = gstreams.assemble([c.bytes for c in cases], seps)

    def key(self):
        return hashlib.sha1(self.stream + repr(self.filter).encode()).hexdigest()[:20]

    def summary(self):
        return {'n_messages': len(self.cases), 'separators': [s.hex() for s in self.seps], 'filter': self.filter,
                'filter_truth': self.truth, 'editions': [c.meta['edition'] for c in self.cases],
                'compressed': [c.compressed for c in self.cases],
                'signature_in_body': [b'BUFR' in c.bytes[4:] for c in self.cases], 'n_bytes': len(self.stream)}

    def to_json(self):
        return {'cases': [c.to_json() for c in self.cases], 'seps': [s.hex() for s in self.seps], 'filter': self.filter,
                'truth': self.truth}

    @staticmethod
    def from_json(d):
        return StreamCase([gmsg.Case.from_json(c) for c in d['cases']], [bytes.fromhex(s) for s in d['seps']],
                          d.get('filter'), d.get('truth'))


def gen_case(ch, opts):
    n = ch.weighted([(1, 0), (3, 1), (4, 2), (4, 3), (2, 5), (1, 8)])
    cases = [gstreams.gen_message(ch, opts) for _ in range(n)]
    seps = [ch.choice(gstreams.SEPARATORS) for _ in range(n + 1)]
    if ch.bool(1, 6):
        seps[ch.int(0, n)] = ch.bytes(ch.int(1, 12)).replace(b'BUFR', b'BUFX')
    filt = truth = None
    if ch.bool(1, 2):
        filt, fn = gstreams.gen_filter(ch, cases)
        try:
            truth = [bool(fn(c)) for c in cases]
        except TypeError:
            raise Reject('filter orders None (raises in Python 3)')
    return StreamCase(cases, seps, filt, truth)


def scan(dec, stream, **kw):
    return sut.call(lambda: [m.serialized_bytes for m in sut.generate_bufr_message(dec, stream, **kw)])


def check_case(case):
    out = Outcome()
    msgs = [c.bytes for c in case.cases]
    n = len(msgs)
    body_sig = any(b'BUFR' in m[4:] for m in msgs)
    out.nontrivial = n >= 2 and body_sig
    out.classes = ['n_messages_%s' % (n if n < 4 else '4+')]
    if body_sig:
        out.classes.append('signature_in_a_body')
    if any(b'BUFR' in m[8:c.info['offsets'][3]] for m, c in zip(msgs, case.cases)):
        out.classes.append('signature_in_section2')
    if case.filter:
        out.classes.append('filter')
        if any(case.truth) and not all(case.truth):
            out.classes.append('filter_selects_some')
        if len(set(c.meta['edition'] for c in case.cases)) > 1:
            out.classes.append('filter_mixed_editions')
    if any(s in (b'BUF', b'BU', b'B', b'7777BUF') for s in case.seps):
        out.classes.append('partial_signature_separator')
    if len(set(c.meta['edition'] for c in case.cases)) > 1:
        out.classes.append('mixed_editions')
    # the decoder's documented options (handed through by the scanner) change nothing about what the stream contains
    variants = [('plain', {}), ('compiled', {}), ('plain', {'ignore_value_expectation': True}), ('plain', {'wire_template_data': False})]
    for kind, extra in variants:
        for info_only in (False, True):
            mode = '%s/%s%s' % ('info-only' if info_only else 'full', kind, ''.join('/' + k for k in sorted(extra)))
            if extra:
                out.classes.append('scan_with_' + sorted(extra)[0])
            # without a filter
            o = scan(decoder(kind), case.stream, info_only=info_only, **extra)
            if not o.ok:
                out.fail('scanning raised %s@%s [%s]' % (o.exc_type, o.frame, mode), error=o.msg)
            elif o.value != msgs:
                out.fail('the scan does not yield exactly the messages of the stream [%s]' % mode,
                         n_got=len(o.value), n_expected=n, lens_got=[len(x) for x in o.value][:10],
                         lens_expected=[len(x) for x in msgs][:10])
            if case.filter:
                want = [m for m, t in zip(msgs, case.truth) if t]
                o = scan(decoder(kind), case.stream, info_only=info_only, filter_expr=case.filter, **extra)
                if not o.ok:
                    out.fail('filtered scan raised %s@%s [%s]' % (o.exc_type, o.frame, mode), error=o.msg, filter=case.filter)
                elif o.value != want:
                    idx = [msgs.index(x) if x in msgs else None for x in o.value]
                    out.fail('the filtered scan does not yield exactly the messages for which the expression is true [%s]' % mode,
                             filter=case.filter, expected_truth=case.truth, got_messages=idx)
    return out


def check_cli(case):
    """thorough: split / info -c / decode -m through the command line on a temporary file"""
    out = Outcome()
    out.nontrivial = len(case.cases) >= 2
    out.classes = ['cli']
    msgs = [c.bytes for c in case.cases]
    with cli.scratch('c11') as d:
        path = os.path.join(d, 'stream.bufr')
        with open(path, 'wb') as f:
            f.write(case.stream)
        o, so, se = cli.run_main(['split', path])
        if not o.ok:
            out.fail('split command raised %s' % o.exc_type, error=o.msg)
        else:
            pieces = []
            k = 0
            while os.path.exists('%s.%d' % (path, k)):
                pieces.append(open('%s.%d' % (path, k), 'rb').read())
                k += 1
            if pieces != msgs:
                out.fail('split command: the files written are not the messages', n_files=len(pieces), n_messages=len(msgs))
            elif b''.join(pieces) != b''.join(msgs):
                out.fail('split command: concatenation differs')
        o, so, se = cli.run_main(['info', '-c', path])
        if not o.ok:
            out.fail('info -c raised %s' % o.exc_type, error=o.msg)
        elif so.strip().splitlines()[-1:] != ['%s: %d' % (path, len(msgs))]:
            out.fail('info -c reports a wrong number of messages', got=so.strip()[-80:], expected=len(msgs))
        # several files in one invocation, some of them without any message (empty, separators only, the stream cut inside
        # its first start signature), listed before, between and after the others: one count per file
        files = [('stream.bufr', case.stream, len(msgs)), ('empty.bufr', b'', 0),
                 ('noise.bufr', (b'\r\n'.join(case.seps) + b'BUF\r\r\n7777').replace(b'BUFR', b'BUFX'), 0), ('one.bufr', (msgs[0] if msgs else b'') + b'BUF', 1 if msgs else 0),
                 ('cut.bufr', case.stream[:max(0, case.spans[0][0] + 3)] if msgs else b'BU', 0)]
        k = int(case.key()[:4], 16)
        order = [files[(k + j * (1 + k % 4)) % 5] for j in range(5)] + [files[k % 5]]
        paths = []
        for j, (name, data, n) in enumerate(order):
            pth = os.path.join(d, '%d-%s' % (j, name))
            with open(pth, 'wb') as f:
                f.write(data)
            paths.append((pth, n))
        o, so, se = cli.run_main(['info', '-c'] + [pth for pth, _ in paths])
        want = ['%s: %d' % (pth, n) for pth, n in paths]
        if not o.ok:
            out.fail('info -c over several files raised %s' % o.exc_type, error=o.msg)
        elif [ln for ln in so.splitlines() if ln.strip()] != want:
            out.fail('info -c over several files: the counts are not those of the files', got=[ln.rsplit('/', 1)[-1] for ln in so.splitlines() if ln.strip()],
                     expected=[w.rsplit('/', 1)[-1] for w in want])
        out.classes.append('cli_count_over_several_files')
    return out


# ---- large messages: the three-octet total length is the only limit on a message's size ------------------------
def large_case(n_strings, edition=4, compressed=False):
    """one message of about 255 * n_strings octets: 101000 031002 205255 with n_strings character values (some holding the
    start and stop signatures)"""
    from refbufr import frame
    meta = frame.default_meta(edition)
    meta.update({'master_table_version': 33, 'n_subsets': 2 if compressed else 1, 'is_compressed': compressed})
    # compressed character columns give their increment width in a 6-bit octet count: at most 63 octets per value
    width = 60 if compressed else 255
    if compressed:
        n_strings = n_strings * 4
    vals = []
    for k in range(n_strings):
        txt = (b'%06d ' % k) + (b'BUFR' if k % 97 == 3 else b'7777' if k % 89 == 5 else b'data')
        vals.append((txt * 24)[:width])
    ids = [101000, 31002, 205000 + width]
    if compressed:
        return gmsg.case_from_raws(meta, ids, columns=[[n_strings, n_strings]] + [[v, v[::-1]] for v in vals])
    return gmsg.case_from_raws(meta, ids, subsets=[[n_strings] + vals])


def exact_length_case(total, edition=4):
    """a message of exactly `total` octets (205YYY character fields make up the difference)"""
    from refbufr import frame
    meta = frame.default_meta(edition)
    meta.update({'master_table_version': 33, 'n_subsets': 1, 'is_compressed': False})
    base = len(gmsg.case_from_raws(meta, [205001], subsets=[[b'x']]).bytes) - 3      # without the one descriptor and its octet
    for k in range(1, 70000):
        rest = total - base - 2 * k
        if k <= rest <= 255 * k:
            ys = [255] * k
            over = 255 * k - rest
            i = 0
            while over:
                d = min(254, over)
                ys[i] -= d
                over -= d
                i += 1
            c = gmsg.case_from_raws(meta, [205000 + y for y in ys], subsets=[[(b'%03d-' % y * 64)[:y] for y in ys]])
            assert len(c.bytes) == total, (len(c.bytes), total)
            return c
    raise ValueError(total)


# total lengths whose three octets hold a line feed, a carriage return, a NUL, a quote or a backslash
SPECIAL_LENGTHS = [0x010a, 0x0a0a, 0x0d0a, 0x0a00, 0x0100, 0x0122, 0x015c, 0x0a0d]


def large_streams(tier, seed):
    sizes = [258, 2400] if tier == 'quick' else [257, 258, 1200, 1960, 1961, 2400, 4200, 33000]
    small = [gmsg.case_from_raws(dict(large_case(1).meta, edition=4), [1001, 1002], subsets=[[1, 2]]),
             gmsg.case_from_raws(dict(large_case(1).meta), [205004], subsets=[[b'BUFR']])]
    out = []
    for j, n in enumerate(sizes):
        big = large_case(n, edition=[4, 3][(j + seed) % 2], compressed=(j + seed) % 3 == 0 and n <= 2400)
        cases = [small[0], big, small[1]] if (j + seed) % 2 else [big, small[1], small[0]]
        out.append(StreamCase(cases, [b'', b'\r\r\n', b'BUF', b'7777'][:len(cases) + 1]))
    lens = SPECIAL_LENGTHS if tier != 'quick' else SPECIAL_LENGTHS[seed % 2::2] + SPECIAL_LENGTHS[:1]
    cs = [exact_length_case(n) for n in lens]
    for j in range(0, len(cs), 2):
        grp = cs[j:j + 2] + [small[j % 2]]
        out.append(StreamCase(grp, [b'\n', b'', b'\r\r\n', b''][:len(grp) + 1]))
    return out


# ---- coverage-guided stage: the same generator and oracle, decisions taken from fuzzer bytes (vlib.fuzz) ----
_FUZZ_OPTS = gstreams.small_opts('quick')


def _fuzz_gen(ch):
    return gen_case(ch, _FUZZ_OPTS)


fuzz_case = fuzz.structured_target(_fuzz_gen, check_case)


def run(tier, seed):
    rep = Report(PID, tier, seed, 'exploration')
    rep.rule = ('streams of 0..8 reference-built messages (editions 2-4, compressed or not, character fields / section 2 holding '
                '"BUFR" and "7777") with separators from a pool (empty, GTS-like headers, noise, B / BU / BUF / 7777) that never '
                'contain the start signature (checked on the assembled stream incl. seams); scanned full and info-only, by a plain '
                'and a template-compiling decoder, with and without a generated filter expression (and/or/not over 26 metadata '
                'atoms incl. section-1 fields whose position depends on the edition).  Non-trivial = at least 2 messages and a '
                'start signature inside a message body.')
    rep.assumptions = ['the expected output is the generated message list itself; the filter is evaluated on the generator\'s metadata',
                       'filters that would order None against a number (raises in Python 3) are not generated']
    workers = runner.tier_workers(tier)
    std.replay_files(rep, PID, check_case, StreamCase.from_json)
    opts = gstreams.small_opts(tier)
    n = 2000 if tier == 'quick' else 40000
    runner.run_generated(rep, lambda ch: gen_case(ch, opts), check_case, n, workers)
    if tier == 'thorough':
        runner.run_generated(rep, lambda ch: gen_case(ch, opts), check_cli, 1500, workers, stage='command line')
    else:
        runner.run_generated(rep, lambda ch: gen_case(ch, opts), check_cli, 40, 4, stage='command line')
    for sc in large_streams(tier, seed):
        o = check_case(sc)
        big = max(len(c.bytes) for c in sc.cases)
        rep.add_case(sc.key(), True, (['message_longer_than_65535_octets'] if big > 65535 else ['total_length_with_special_octets']) +
                     (['message_longer_than_500000_octets'] if big > 500000 else []), None)
        for clause, detail in o.failures:
            rep.add_failure('large message: ' + clause, dict(detail, largest_message_octets=big), sc.to_json(),
                            stage='large messages')
    rep.required_classes = ['n_messages_0', 'n_messages_4+', 'message_longer_than_500000_octets', 'signature_in_a_body', 'signature_in_section2', 'filter_selects_some',
                            'filter_mixed_editions', 'partial_signature_separator', 'mixed_editions', 'cli']
    fuzz.run_structured(rep, 'checks.c11', _fuzz_gen, tier)
    return rep.finish()


def replay(path):
    return std.replay_main(PID, path, check_case, StreamCase.from_json)
