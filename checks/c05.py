"""C05 -- compression is transparent: same data, same decoded result.

Exhaustive core: every column of 1..4 subsets over {missing, 0..2^w-2} for widths 1..4
(numeric, narrowed with 201YYY where the table has no such width; code tables of width
2..4), (i) through pybufrkit's encoder -> pybufrkit's decoder and the reference reader,
(ii) written by the reference with every legal difference width (minimal .. minimal+3, 63)
-> pybufrkit's decoder.  Random: widths up to 64 bits, up to 40 subsets, strings, and full
templates stored both ways."""
import hashlib
import itertools
from fractions import Fraction

from vlib import runner, sut, std, encutil, fuzz
from vlib.compare import first_value_diff
from vlib.runner import Outcome, Report, Reject
from gen import messages as gmsg, pool as gpool
from gen.values import GenSource
from refbufr import frame, codec, tree as rtree, message as rmessage, IllFormed, Unsupported
from refbufr.walker import all_ones
from checks import c02

PID = 'C05'
_DEC = None
_ENC = None
PACK = 12   # columns per message in the exhaustive part


def decoder():
    global _DEC
    if _DEC is None:
        _DEC = sut.Decoder()
    return _DEC


def encoder():
    global _ENC
    if _ENC is None:
        _ENC = sut.Encoder()
    return _ENC


_COMPILING = {}


def compiling(what):
    if what not in _COMPILING:
        _COMPILING[what] = (sut.Decoder if what == 'dec' else sut.Encoder)(compiled_template_cache_max=4)
    return _COMPILING[what]


def element_for_width(pl, w, kind):
    """(ids of a one-field template of width w, element id) using Table B of version 33"""
    B = pl.tables.B
    if kind == 'code':
        for i in sorted(B):
            e = B[i]
            if e.kind == 'code' and not e.sut_numeric_codeish and e.nbits == w and i // 1000 not in (0, 31, 33):
                return [i], i
        return None, None
    for i in sorted(B):
        e = B[i]
        if e.kind == 'num' and e.scale == 0 and e.ref == 0 and e.nbits == w and i // 1000 not in (0, 31, 33):
            return [i], i
    # narrow a wider scale-0 numeric with 201
    for i in sorted(B):
        e = B[i]
        if e.kind == 'num' and e.scale == 0 and e.nbits in (3, 4, 5, 6) and e.nbits > w and i // 1000 not in (0, 31, 33):
            return [201000 + 128 - (e.nbits - w), i, 201000], i
    return None, None


def column_domain(w):
    vals = list(range(0, (1 << w) - 1)) if w > 1 else [0, 1]
    if w > 1:
        vals.append(all_ones(w))    # missing
    return vals


def exhaustive_items(tier):
    items = []
    max_n = 3 if tier == 'quick' else 4
    for kind in ('num', 'code'):
        for w in (1, 2, 3, 4):
            if kind == 'code' and w == 1:
                continue
            for n in range(1, max_n + 1):
                cols = list(itertools.product(column_domain(w), repeat=n))
                for k in range(0, len(cols), PACK):
                    items.append((kind, w, n, cols[k:k + PACK]))
    return items


def check_exhaustive(item):
    kind, w, n, cols = item
    fails = []
    pl = gpool.pool_for(33)
    one, eid = element_for_width(pl, w, kind)
    if one is None:
        return [('no element', {})], 0, 0
    # the element replicated len(cols) times (the operator pair stays outside the replication)
    if len(one) == 3:
        ids = [one[0], 101000 + len(cols), one[1], one[2]]
    else:
        ids = [101000 + len(cols), one[0]]
    meta = frame.default_meta(4)
    meta['n_subsets'] = n
    meta['is_compressed'] = True
    columns = [list(c) for c in cols]
    case = gmsg.case_from_raws(meta, ids, columns=columns)
    exp_vals = case.values()
    nontrivial = sum(1 for c in cols if len(set(c)) > 1 or all_ones(w) in c and w > 1)

    def bad(clause, **d):
        d.update({'kind': kind, 'width': w, 'n_subsets': n, 'descriptors': ids})
        fails.append((clause, d))

    def first_bad_column(got_vals):
        for k in range(len(cols)):
            for i in range(n):
                g = got_vals[i][k] if k < len(got_vals[i]) else '<absent>'
                if g != exp_vals[i][k] or type(g) != type(exp_vals[i][k]):
                    return k
        return None

    # (i) pybufrkit encoder -> pybufrkit decoder, and the reference reader
    flat = encutil.flat_json_of_case(case)
    o = sut.call(encoder().process, flat)
    if not o.ok:
        bad('encoder raised %s@%s on a column' % (o.exc_type, o.frame), error=o.msg, columns=columns)
    else:
        produced = o.value.serialized_bytes
        out = Outcome()
        c02.check_compressed_layout(out, case, produced)
        for clause, detail in out.failures:
            bad('encoder output read by the reference reader: ' + clause, **detail)
        o2 = sut.call(decoder().process, produced)
        if not o2.ok:
            bad('decoder raised %s@%s on the encoder\'s compressed output' % (o2.exc_type, o2.frame), error=o2.msg)
        else:
            got = sut.observe(o2.value)['values']
            k = first_bad_column(got)
            if k is not None:
                bad('column written by the encoder is not read back by the decoder', column=list(cols[k]),
                    got=[got[i][k] for i in range(n)], expected=[exp_vals[i][k] for i in range(n)])
    # (ii) every legal difference width written by the reference
    n_widths = 0
    f0 = case.decoded.subsets[0].fields
    minimal = [codec.minimal_diff_width(f, f.raws) for f in f0]
    for extra in (0, 1, 2, 3, 63):
        widths = [0 if (f.kind == 'const' or m[0]) else extra for f, m in zip(f0, minimal)]
        if extra and not any(widths):
            continue
        case.extra_widths = widths
        b = gmsg.build_bytes(case)
        n_widths += 1
        o3 = sut.call(decoder().process, b)
        if not o3.ok:
            bad('decoder raised %s@%s on a legal difference width' % (o3.exc_type, o3.frame), error=o3.msg,
                extra_width=extra, columns=columns)
            continue
        got = sut.observe(o3.value)['values']
        k = first_bad_column(got)
        if k is not None:
            bad('decoder misreads a legal difference width', column=list(cols[k]), extra_width=extra,
                minimal_width=minimal[k + (1 if len(one) == 1 else 0)][2] if False else None,
                got=[got[i][k] for i in range(n)], expected=[exp_vals[i][k] for i in range(n)])
    return fails, len(cols), nontrivial


# ---------------------------------------------------------------------------------------
# random part
class Pair(object):
    """a compressed case and its uncompressed twin"""

    def __init__(self, comp, unc):
        self.comp, self.unc = comp, unc
        self.features = set(comp.features)

    def key(self):
        return self.comp.key()

    def summary(self):
        return self.comp.summary()

    def to_json(self):
        return self.comp.to_json()

    @staticmethod
    def from_json(d):
        comp = gmsg.Case.from_json(d)
        return Pair(comp, gmsg.recompress(comp, False))


def gen_pair(ch, tier):
    mode = ch.weighted([(3, 'template'), (2, 'wide'), (2, 'strings')])
    if mode == 'template':
        opts = gmsg.GenOpts(tier)
        opts.compressed = True
        opts.min_subsets = 2
        opts.max_subsets = 6 if tier == 'quick' else 40
        comp = gmsg.gen_case(ch, opts)
    else:
        pl = gpool.pool_for(33)
        meta = frame.default_meta(ch.choice([4, 3, 2]))
        n = ch.int(2, 8 if tier == 'quick' else 40)
        meta['n_subsets'] = n
        meta['is_compressed'] = True
        if mode == 'wide':
            cands = [i for i in pl.num_all if pl.tables.B[i].scale == 0 and pl.tables.B[i].nbits >= 8]
            eid = ch.choice(cands)
            e = pl.tables.B[eid]
            target = ch.weighted([(2, 64), (1, 63), (1, 33), (2, ch.int(e.nbits + 1, 64))])
            ids = [201000 + 128 + (target - e.nbits), eid, eid, 201000]
        else:
            ids = [ch.choice(pl.strs), ch.choice(pl.strs)]
            if ch.bool():
                ids = [208000 + ch.int(1, 10)] + ids + [208000]
        c = gmsg.Case()
        c.meta, c.ids, c.tables = meta, ids, pl.tables
        c.tree = rtree.parse(ids, pl.tables)
        src = GenSource(ch)
        c.decoded = codec.walk_all(c.tree, pl.tables, n, True, lambda i: src)
        c.features = c.decoded.features() | {'compressed', 'edition%d' % meta['edition'], mode}
        if ch.bool(1, 3):
            c.extra_widths = [ch.weighted([(4, 0), (1, 1), (1, 3), (1, 60)]) for _ in c.decoded.subsets[0].fields]
        try:
            gmsg.build_bytes(c)
        except IllFormed as e:
            raise Reject(str(e)[:60])
        comp = c
    unc = gmsg.recompress(comp, False)
    p = Pair(comp, unc)
    return p


def check_pair(pair):
    out = Outcome()
    comp, unc = pair.comp, pair.unc
    feats = set(comp.features)
    cols = comp.decoded.subsets[0].fields
    nt = False
    for f in cols:
        if f.kind == 'const':
            continue
        if len(set(map(repr, f.raws))) > 1:
            nt = True
        if any(f.is_missing_raw(r) for r in f.raws):
            nt = True
            feats.add('column_with_missing')
            present = [r for r in f.raws if not f.is_missing_raw(r)]
            if present and len(set(map(repr, present))) == 1:
                feats.add('missing_next_to_equal')
            if not present:
                feats.add('column_all_missing')
        if f.kind in ('num', 'code'):
            eq, mn, w = codec.minimal_diff_width(f, f.raws)
            if not eq:
                present = [r for r in f.raws if not f.is_missing_raw(r)]
                rng = max(present) - min(present)
                if rng and (rng + 2) & (rng + 1) == 0:
                    feats.add('range_2k_minus_2')
                if w == 1 and any(f.is_missing_raw(r) for r in f.raws):
                    feats.add('one_bit_diff_with_missing')
            if f.nbits == 64:
                feats.add('width64')
            if f.nbits > 32:
                feats.add('width_over_32')
        if f.kind == 'str':
            feats.add('string_column')
    out.nontrivial = nt
    out.classes = sorted(feats)
    # 1. the reference-written compressed bytes decode to the data
    o = sut.call(decoder().process, comp.bytes)
    if not o.ok:
        return out.fail('decoder raised %s@%s on compressed data' % (o.exc_type, o.frame), error=o.msg)
    oc = sut.observe(o.value)
    nest_c = sut.nested_template_data(o.value)
    for i in range(comp.nsub):
        d = first_value_diff(oc['values'][i], comp.values()[i])
        if d is not None:
            return out.fail('compressed column decoded differently', subset=i, index=d[0], got=d[1], expected=d[2],
                            label=comp.labels()[i][d[0]] if isinstance(d[0], int) else None)
    # 2. both storage forms, encoded by pybufrkit from the same JSON, decode identically
    res = {}
    # on every other case the strings are handed over without their blank padding (the way a user writes them)
    unpad = int(comp.key()[:2], 16) % 2 == 1
    if unpad:
        out.classes.append('strings_given_unpadded')
    # on every third case the numbers are handed over the way a user has them: off the element's grid (within 0.45 of a
    # unit of the last scaled digit, so that each still stands for the same grid point)
    off_grid = int(comp.key()[2:4], 16) % 3 == 0
    # on every fourth case (templates in the domain of compilation) both forms go through template-compiling coders
    use_compiling = int(comp.key()[4:6], 16) % 4 == 0 and not comp.decoded.unbalanced()
    enc, dec = (compiling('enc'), compiling('dec')) if use_compiling else (encoder(), decoder())
    if use_compiling:
        out.classes.append('with_template_compilation')
    for name, case in (('compressed', comp), ('uncompressed', unc)):
        flat = encutil.flat_json_of_case(case, unpad=unpad)
        if off_grid:
            rows = encutil.flat_values(case, unpad)
            touched = 0
            for i in range(case.nsub):
                for k, f in enumerate(case.decoded.fields_of(i)):
                    if f.kind == 'num' and f.role == 'data' and f.scale != 0 and f.nbits <= 40 and rows[i][k] is not None:
                        h = int(hashlib.sha1(('%s %d %d' % (comp.key(), i, k)).encode()).hexdigest()[:4], 16)
                        delta = [Fraction(45, 100), Fraction(-45, 100), Fraction(3, 10), Fraction(-3, 10), Fraction(12, 100),
                                 Fraction(-12, 100), Fraction(0)][h % 7]
                        rows[i][k] = float((Fraction(case.decoded.raw(i, k) + f.ref) + delta) / Fraction(10) ** f.scale)
                        touched += 1
            if touched:
                if name == 'compressed':
                    out.classes.append('numbers_given_off_grid')
                flat = rmessage.flat_json(case.meta, case.ids, rows)
        oe = sut.call(enc.process, flat)
        if not oe.ok:
            return out.fail('encoder raised %s@%s (%s)' % (oe.exc_type, oe.frame, name), error=oe.msg)
        od = sut.call(dec.process, oe.value.serialized_bytes)
        if not od.ok:
            return out.fail('decoder raised %s@%s on the encoder output (%s)' % (od.exc_type, od.frame, name), error=od.msg)
        res[name] = (sut.observe(od.value), sut.nested_template_data(od.value))
    a, b = res['compressed'][0], res['uncompressed'][0]
    for i in range(comp.nsub):
        d = first_value_diff(a['values'][i], b['values'][i])
        if d is not None:
            return out.fail('same data decodes differently compressed vs uncompressed', subset=i, index=d[0],
                            compressed=d[1], uncompressed=d[2])
        if a['labels'][i] != b['labels'][i]:
            return out.fail('labels differ compressed vs uncompressed', subset=i)
        if a['links'][i] != b['links'][i]:
            return out.fail('attribute links differ compressed vs uncompressed', subset=i,
                            compressed=a['links'][i], uncompressed=b['links'][i])
    if res['compressed'][1] != res['uncompressed'][1]:
        return out.fail('hierarchical view differs compressed vs uncompressed')
    # against the reference as well
    for i in range(comp.nsub):
        d = first_value_diff(b['values'][i], comp.values()[i])
        if d is not None:
            return out.fail('uncompressed twin decoded differently from the data', subset=i, index=d[0], got=d[1], expected=d[2])
    return out


# ---- coverage-guided stage: the same generator and oracle, decisions taken from fuzzer bytes (vlib.fuzz) ----
def _fuzz_gen(ch):
    return gen_pair(ch, 'quick')


fuzz_case = fuzz.structured_target(_fuzz_gen, check_pair)


def run(tier, seed):
    rep = Report(PID, tier, seed, 'exploration')
    rep.rule = ('exhaustive: all columns of 1..%d subsets over {missing, 0..2^w-2} for w in 1..4, numeric (201-narrowed) '
                'and code-table elements, through encoder->decoder, encoder->reference reader, and reference writer with '
                'difference widths minimal, +1, +2, +3, 63 -> decoder; random: full templates / 33..64-bit fields / '
                'character columns with up to %d subsets, stored both ways.  A column is non-trivial when it has >= 2 '
                'distinct entries or a missing entry; evaluations counts columns (exhaustive part) and message pairs.'
                % ((3, 8) if tier == 'quick' else (4, 40)))
    rep.assumptions = ['compressed character columns are written by the reference with a zero base and full-width increments '
                       '(DESIGN 10-2)', 'a difference width wider than the field is legal as long as it holds the differences']
    workers = runner.tier_workers(tier)
    items = exhaustive_items(tier)
    res = runner.run_enumerated(items, check_exhaustive, workers, chunk=8)
    ncols = 0
    for item, (fails, n, nt) in zip(items, res):
        kind, w, nsub, cols = item
        for j, c in enumerate(cols):
            nontrivial = len(set(c)) > 1 or (w > 1 and all_ones(w) in c)
            rep.add_case('col:%s:%d:%r' % (kind, w, c), nontrivial, ['exhaustive_%s_w%d_n%d' % (kind, w, nsub)],
                         {'kind': kind, 'width': w, 'column': list(c)} if (ncols + j) % 9973 == 0 else None)
        ncols += len(cols)
        for clause, detail in fails:
            rep.add_failure(clause, detail, {'exhaustive_item': [kind, w, nsub, [list(c) for c in cols]]}, stage='exhaustive')
    rep.exhaustive = True
    rep.extra['exhaustive_columns'] = ncols
    rep.extra['exhaustive_note'] = 'exhaustive refers to the enumerated column space; the random part is sampled'
    rep.required_classes = ['column_with_missing', 'missing_next_to_equal', 'column_all_missing', 'range_2k_minus_2',
                            'one_bit_diff_with_missing', 'width64', 'string_column', 'bitmap', 'delayed_rep']
    std.replay_files(rep, PID, check_pair, Pair.from_json)
    n = 1500 if tier == 'quick' else 40000
    runner.run_generated(rep, lambda ch: gen_pair(ch, tier), check_pair, n, workers,
                         shrink_s=20 if tier == 'quick' else 120)
    # templates that end inside an operator scope (201 / 202 / 207 / 208 / 204 / 203 left open), several subsets: both storage forms
    for name, c in gmsg.unclosed_scope_cases():
        try:
            comp = gmsg.recompress(c, True)
        except Exception:
            continue
        pr = Pair(comp, c)
        out = check_pair(pr)
        rep.add_case('unclosed:' + name, True, ['template_ends_inside_an_operator_scope'], None)
        for clause, detail in out.failures:
            rep.add_failure('template ends inside an operator scope (%s): %s' % (name, clause), detail, pr.to_json(), stage='hand-laid-out')
    # one element with associated fields of two widths, in messages stored both ways and decoded one after the other by the
    # shared decoder: each storage form gives the data
    from vlib.compare import first_value_diff as _fvd
    for tag, cases in gmsg.assoc_width_twin_runs():
        for case in cases:
            o = sut.call(decoder().process, case.bytes)
            bad = None
            if not o.ok:
                bad = ('decoder raised %s@%s' % (o.exc_type, o.frame), {'error': o.msg})
            else:
                ob = sut.observe(o.value)
                for k in range(case.nsub):
                    d = _fvd(ob['values'][k], case.values()[k])
                    if d is not None or ob['labels'][k] != case.labels()[k]:
                        bad = ('the stored form does not decode to the data', {'subset': k, 'index': d and d[0], 'got': d and d[1], 'expected': d and d[2]})
                        break
            rep.add_case('assoc_twin:' + case.key(), True, ['same_element_with_two_associated_field_widths'], None)
            if bad:
                rep.add_failure('associated field widths (%s): %s' % (tag, bad[0]), bad[1], case.to_json(), stage='associated field widths')
    fuzz.run_structured(rep, 'checks.c05', _fuzz_gen, tier)
    return rep.finish(SIGNATURES)


def _k3(clause, f):
    return ('encoder raised ValueError@bitops.py:write_uint' in clause
            and '64 is too large an unsigned integer for a bitstring of length 6' in str(f['detail'].get('error')))


SIGNATURES = {'encoder_refuses_63bit_difference': _k3}


def replay(path):
    import json
    d = json.load(open(path))
    if 'exhaustive_item' in d['case']:
        kind, w, n, cols = d['case']['exhaustive_item']
        fails, _, _ = check_exhaustive((kind, w, n, [tuple(c) for c in cols]))
        for clause, detail in fails:
            print('VIOLATION property=%s replay=%s' % (PID, path))
            print('  clause: %s detail: %s' % (clause, json.dumps(runner.jsonable(detail))[:600]))
        return 1 if fails else 0
    return std.replay_main(PID, path, check_pair, Pair.from_json)
