"""C20 -- in-stream table definitions govern the messages that follow them.

A stream = 1..3 table-definition messages in the NCEP layout (data category 11, one
uncompressed subset, template 103000 031001 000001-3 | 101000 031001 300004 | 105000 031001
300003 205064 101000 031001 000030) defining new class 48..63 elements and sequences over them
(plain, with replication, NCEP "replication-only"), also re-defining earlier ids, followed by
data messages over those descriptors mixed with standard ones and by a control message.  Each
stream is decoded in a forked child of a pristine process (the definitions are process-global);
oracle: the reference walker with the same definitions overlaid on the standard tables."""
import hashlib
import json

from vlib import runner, sut, std, forkexec
from vlib.compare import first_value_diff
from vlib.runner import Outcome, Report, Reject
from gen import messages as gmsg, pool as gpool
from gen.values import GenSource
from refbufr import frame, codec, tables as rtables, tree as rtree, walker as rwalker, IllFormed, Unsupported

PID = 'C20'
DEF_TEMPLATE = [103000, 31001, 1, 2, 3, 101000, 31001, 300004, 105000, 31001, 300003, 205064, 101000, 31001, 30]
# the same layout in other spellings (the data section is bit for bit the same, except for the 16-bit factors of the last):
# 300004 written out, 300003 written out, both, and 031002 as replication factors
_B_OUT = [111000, 31001, 10, 11, 12, 13, 14, 15, 16, 17, 18, 19, 20]
_D_OUT = [107000, 31001, 10, 11, 12, 205064, 101000, 31001, 30]
DEF_TEMPLATES = [DEF_TEMPLATE,
                 DEF_TEMPLATE[:5] + _B_OUT + DEF_TEMPLATE[8:],
                 DEF_TEMPLATE[:8] + _D_OUT,
                 DEF_TEMPLATE[:5] + _B_OUT + _D_OUT,
                 [103000, 31002, 1, 2, 3, 101000, 31002, 300004, 105000, 31002, 300003, 205064, 101000, 31001, 30]]
UNITS = ['NUMERIC', 'CODE TABLE', 'FLAG TABLE', 'CCITT IA5', 'M', 'K', 'PA']


def pad(s, n, right=False):
    b = s.encode('ascii')
    return (b.rjust(n) if right else b.ljust(n))[:n]


class TableDef(object):
    """one definition message: b = [(id, name, unit, scale, ref, nbits)], d = [(id, name, [member ids])]"""

    def __init__(self, b, d, edition=4, mv=33, a=None, style=0, spelling=0):
        self.b, self.d, self.edition, self.mv, self.a, self.style = b, d, edition, mv, a or [], style
        self.spelling = spelling      # which of the equivalent section-3 spellings of the dictionary layout (DEF_TEMPLATES)

    def raws(self):
        st = self.style
        out = [len(self.a)]
        for ent, l1, l2 in self.a:
            out += [pad(ent, 3), pad(l1, 32), pad(l2, 32)]
        out.append(len(self.b))
        for (id_, name, unit, scale, ref, nbits) in self.b:
            s = '%06d' % id_
            name1, name2 = name[:32], name[32:64]
            out += [pad(s[0], 1), pad(s[1:3], 2), pad(s[3:], 3), pad(name1, 32), pad(name2, 32), pad(unit, 24),
                    pad('-' if scale < 0 else '+', 1), pad(str(abs(scale)), 3, right=bool(st & 1)),
                    pad('-' if ref < 0 else '+', 1), pad(str(abs(ref)), 10, right=bool(st & 2)),
                    pad(str(nbits), 3, right=bool(st & 4))]
        out.append(len(self.d))
        for (id_, name, members) in self.d:
            s = '%06d' % id_
            out += [pad(s[0], 1), pad(s[1:3], 2), pad(s[3:], 3), pad(name, 64), len(members)]
            out += [pad('%06d' % m, 6) for m in members]
        return out

    def meta(self):
        m = frame.default_meta(self.edition)
        m['master_table_version'] = self.mv
        m['data_category'] = 11
        m['n_subsets'] = 1
        m['is_compressed'] = False
        return m

    def build(self):
        return gmsg.case_from_raws(self.meta(), DEF_TEMPLATES[self.spelling], subsets=[self.raws()])

    def to_json(self):
        return {'b': [list(x) for x in self.b], 'd': [[x[0], x[1], list(x[2])] for x in self.d], 'edition': self.edition,
                'mv': self.mv, 'a': [list(x) for x in self.a], 'style': self.style, 'spelling': self.spelling}

    @staticmethod
    def from_json(d):
        return TableDef([tuple(x) for x in d['b']], [(x[0], x[1], list(x[2])) for x in d['d']], d['edition'], d['mv'],
                        [tuple(x) for x in d['a']], d.get('style', 0), d.get('spelling', 0))


def overlay(base_mv, defs, local=None):
    """reference tables: standard tables of that version (and the local tables the message names, if bundled) with the
    definitions of all messages so far on top"""
    wmo, loc = rtables.select(0, local[0], local[1], base_mv, local[2]) if local else rtables.select(0, 0, 0, base_mv, 0)
    eb, ed = {}, {}
    for td in defs:
        for (id_, name, unit, scale, ref, nbits) in td.b:
            eb[id_] = [(name[:32].rstrip() + name[32:64].rstrip()), unit.strip(), scale, ref, nbits]
        for (id_, name, members) in td.d:
            ed[id_] = [name.rstrip(), ['%06d' % m for m in members]]
    return rtables.Tables(wmo, loc, eb, ed)


class DataMsg(object):
    def __init__(self, after, mv, edition, ids, compressed, nsub, raws, local=None):
        """after: number of definition messages in front of it; raws: {'subsets': ...} or {'columns': ...};
        local: (centre, sub-centre, local table version) named in section 1, or None"""
        self.after, self.mv, self.edition, self.ids, self.compressed, self.nsub, self.raws = after, mv, edition, ids, compressed, nsub, raws
        self.local = tuple(local) if local else None

    def to_json(self):
        def enc(x):
            return {'hex': x.hex()} if isinstance(x, (bytes, bytearray)) else x
        r = {k: [[enc(v) for v in row] for row in rows] for k, rows in self.raws.items()}
        return {'after': self.after, 'mv': self.mv, 'edition': self.edition, 'ids': self.ids, 'compressed': self.compressed,
                'nsub': self.nsub, 'raws': r, 'local': list(self.local) if self.local else None}

    @staticmethod
    def from_json(d):
        def dec(x):
            return bytes.fromhex(x['hex']) if isinstance(x, dict) else x
        r = {k: [[dec(v) for v in row] for row in rows] for k, rows in d['raws'].items()}
        return DataMsg(d['after'], d['mv'], d['edition'], list(d['ids']), d['compressed'], d['nsub'], r, d.get('local'))


def walk_data(dm, tables, source=None):
    """reference walk of a data message under the given tables -> (decoded, bytes)"""
    tree = rtree.fix_ncep(rtree.parse(dm.ids, tables, strict=False))
    meta = frame.default_meta(dm.edition)
    meta['master_table_version'] = dm.mv
    meta['n_subsets'] = dm.nsub
    meta['is_compressed'] = dm.compressed
    if dm.local:
        meta['originating_centre'], meta['originating_subcentre'], meta['local_table_version'] = dm.local
        if dm.edition == 2:
            meta['originating_subcentre'] = 0
    if source is not None:
        dec = codec.walk_all(tree, tables, dm.nsub, dm.compressed, lambda i: source)
    elif dm.compressed:
        src = codec.GivenSource([list(c) for c in dm.raws['columns']])
        dec = codec.walk_all(tree, tables, dm.nsub, True, lambda i: src)
    else:
        dec = codec.walk_all(tree, tables, dm.nsub, False, lambda i: codec.GivenSource([[r] for r in dm.raws['subsets'][i]]))
    bits = codec.data_bits(dec, None)
    b = frame.build(meta, dm.ids, bits)[0]
    return dec, b


def raws_of(dec, compressed, nsub):
    if compressed:
        return {'columns': [list(f.raws) for f in dec.subsets[0].fields if f.kind != 'const']}
    return {'subsets': [[f.raws[0] for f in w.fields if f.kind != 'const'] for w in dec.subsets]}


class StreamCase(object):
    def __init__(self, defs, datas, order):
        """order: list of ('def', k) / ('data', k) in stream order"""
        self.defs, self.datas, self.order = defs, datas, order

    def key(self):
        return hashlib.sha1(json.dumps(self.to_json(), sort_keys=True).encode()).hexdigest()[:20]

    def summary(self):
        return {'definitions': [{'elements': [(x[0], x[2], x[3], x[4], x[5]) for x in td.b],
                                 'sequences': [(x[0], x[2]) for x in td.d], 'edition': td.edition} for td in self.defs],
                'data_messages': [{'descriptors': ['%06d' % i for i in dm.ids], 'compressed': dm.compressed, 'n_subsets': dm.nsub,
                                   'after_definitions': dm.after} for dm in self.datas],
                'order': self.order}

    def to_json(self):
        return {'defs': [td.to_json() for td in self.defs], 'datas': [dm.to_json() for dm in self.datas], 'order': [list(x) for x in self.order]}

    @staticmethod
    def from_json(d):
        return StreamCase([TableDef.from_json(x) for x in d['defs']], [DataMsg.from_json(x) for x in d['datas']],
                          [tuple(x) for x in d['order']])


STD_ELEMS = [1001, 1002, 12101, 2001, 4001, 1015, 20003]


def gen_elements(ch, used, n):
    out = []
    for _ in range(n):
        for _try in range(20):
            id_ = ch.int(48, 63) * 1000 + ch.int(1, 255)
            if id_ not in used:
                break
        used.add(id_)
        unit = ch.weighted([(4, 'NUMERIC'), (2, 'CODE TABLE'), (1, 'FLAG TABLE'), (2, 'CCITT IA5'), (1, 'M'), (1, 'K')])
        if unit == 'CCITT IA5':
            nbits, scale, ref = 8 * ch.int(1, 12), 0, 0
        elif unit in ('CODE TABLE', 'FLAG TABLE'):
            nbits, scale, ref = ch.int(1, 24), 0, 0
        else:
            nbits = ch.weighted([(1, 1), (2, ch.int(2, 8)), (3, ch.int(9, 20)), (1, ch.int(21, 32))])
            scale = ch.weighted([(3, 0), (2, ch.int(1, 6)), (1, -ch.int(1, 3))])
            ref = ch.weighted([(3, 0), (2, -ch.int(1, 100000)), (1, ch.int(1, 5000)), (1, -ch.int(1, 10 ** 9))])
        name = 'ELEM %06d' % id_ + (' WITH A LONG NAME THAT FILLS THE SECOND LINE TOO' if ch.bool(1, 4) else '')
        out.append((id_, name, unit, scale, ref, nbits))
    return out


def gen_sequences(ch, used, elems_all, seqs_before, n):
    out = []
    reponly = []
    for _ in range(n):
        for _try in range(20):
            id_ = 300000 + ch.int(48, 63) * 1000 + ch.int(1, 255)
            if id_ not in used:
                break
        used.add(id_)
        style = ch.weighted([(3, 'plain'), (2, 'fixed'), (2, 'delayed'), (2, 'reponly'), (1, 'nested'), (1, 'uses_reponly')])
        pick = lambda: ch.choice(elems_all) if ch.bool(3, 4) or not elems_all else ch.choice(STD_ELEMS)   # noqa: E731
        if not elems_all:
            pick = lambda: ch.choice(STD_ELEMS)     # noqa: E731
        if style == 'plain':
            members = [pick() for _ in range(ch.int(1, 4))]
        elif style == 'fixed':
            body = [pick() for _ in range(ch.int(1, 2))]
            members = [pick(), 100000 + len(body) * 1000 + ch.int(1, 3)] + body
        elif style == 'delayed':
            body = [pick() for _ in range(ch.int(1, 2))]
            members = [100000 + len(body) * 1000, ch.choice([31001, 31000])] + body + [pick()]
        elif style == 'reponly':
            members = [101000, ch.choice([31001, 31000])] if ch.bool(3, 4) else [101000 + ch.int(1, 3)]
            reponly.append(id_)
        elif style == 'nested' and (seqs_before or out):
            inner = ch.choice([s[0] for s in out] + seqs_before)
            if inner in reponly or inner in REPONLY_ALL:
                members = [pick(), inner, pick()]
            else:
                members = [pick(), inner]
        elif style == 'uses_reponly' and (reponly or REPONLY_ALL):
            r = ch.choice(reponly + sorted(REPONLY_ALL))
            if ch.bool():
                members = [pick(), r, pick(), pick()]
            else:
                # inside an ordinary replication: the deferred replication and the item it replicates are the body
                members = [pick(), 102000 + ch.int(1, 2), r, pick(), pick()]
        else:
            members = [pick()]
        out.append((id_, 'SEQ %06d' % id_, members))
    return out, reponly


REPONLY_ALL = set()


def gen_stream(ch):
    REPONLY_ALL.clear()
    used = set()
    n_defs = ch.weighted([(5, 1), (3, 2), (1, 3)])
    defs = []
    elems_all, seqs_all = [], []
    pending, forced_next, used_outer = {}, [], set()       # forward references between definition messages
    redefined_in_seq = set()
    for k in range(n_defs):
        only_redefine = bool(k) and ch.bool(1, 2)
        b_only = False          # a message with Table B entries only that re-defines a member of an earlier sequence
        b = [] if only_redefine else gen_elements(ch, used, ch.int(1, 5))
        if k and (only_redefine or ch.bool(1, 2)) and elems_all:
            # re-define ids of an earlier definition message with other attributes (a message that mentions
            # no new id at all when only_redefine)
            for _ in range(ch.int(1, 2)):
                old = ch.choice([x for td in defs[:k] for x in td.b])
                # preferably an element that a sequence defined earlier contains (the sequence must follow the re-definition)
                in_seq = [x for td in defs[:k] for x in td.b if any(x[0] in sq[2] for t2 in defs[:k] for sq in t2.d)]
                if in_seq and ch.bool(2, 3):
                    old = ch.choice(in_seq)
                    redefined_in_seq.add(old[0])
                    b_only = only_redefine
                nb = gen_elements(ch, set(), 1)[0]
                if old[0] not in [x[0] for x in b]:
                    b.append((old[0],) + nb[1:])
        d_only = bool(k) and bool(elems_all) and not b_only and ch.bool(1, 4)
        if d_only:
            b = []           # a dictionary message that adds sequences over elements defined earlier: no Table B entry at all
        elems_all += [x[0] for x in b if x[0] not in elems_all]
        d, reponly = gen_sequences(ch, used, elems_all, [s for s in seqs_all], 0 if only_redefine else ch.int(0, 4))
        REPONLY_ALL.update(reponly)
        if k and not b_only and ch.bool(1, 3) and seqs_all:
            cand = [s for s in seqs_all if s not in REPONLY_ALL]
            if cand:
                sid = ch.choice(cand)
                d.append((sid, 'SEQ REDEFINED', [ch.choice(elems_all) for _ in range(ch.int(1, 3))]))
        if d_only and not d:
            for _try in range(20):
                sid = 300000 + ch.int(48, 63) * 1000 + ch.int(1, 255)
                if sid not in used:
                    break
            used.add(sid)
            d.append((sid, 'SEQ IN A MESSAGE WITHOUT TABLE B ENTRIES', [ch.choice(elems_all) for _ in range(ch.int(1, 3))]))
        # sequences that an earlier definition message used before they were defined are defined now
        for f_id in forced_next:
            d.append((f_id, 'SEQ DEFINED AFTER ITS USER', [ch.choice(elems_all) for _ in range(ch.int(1, 2))]))
        forced_next = []
        if k < n_defs - 1 and elems_all and ch.bool(1, 3):
            # a sequence whose member sequence is only defined by the next definition message
            for _try in range(20):
                outer = 300000 + ch.int(48, 63) * 1000 + ch.int(1, 255)
                f_id = 300000 + ch.int(48, 63) * 1000 + ch.int(1, 255)
                if outer not in used and f_id not in used and outer != f_id:
                    break
            used.update([outer, f_id])
            d.append((outer, 'SEQ USING A LATER ONE', [ch.choice(elems_all), f_id]))
            pending[outer] = f_id
            forced_next.append(f_id)
        seqs_all += [x[0] for x in d if x[0] not in seqs_all]
        # Table A entries (message types); real dictionaries declare several
        a = [('%03d' % ch.int(0, 255), 'DATA CATEGORY %d' % t, 'LINE 2' if t % 2 else '')
             for t in range(ch.weighted([(3, 0), (3, 1), (3, 2), (2, 3), (1, 6)]))]
        defs.append(TableDef(b, d, ch.choice([3, 4]), ch.choice([33, 25, 40]), a, ch.int(0, 7),
                             ch.weighted([(4, 0), (1, 1), (1, 2), (1, 3), (1, 4)])))
    # stream order: definitions in order, data messages after at least one of them
    order = []
    datas = []
    for k in range(n_defs):
        order.append(('def', k))
        n_data = ch.int(1, 3) if k == n_defs - 1 else ch.int(0, 2)
        for _ in range(n_data):
            tabs = overlay(33, defs[:k + 1])
            known_e = sorted(i for td in defs[:k + 1] for i in [x[0] for x in td.b])
            known_s = set(i for td in defs[:k + 1] for i in [x[0] for x in td.d])
            # a sequence whose member is not defined yet cannot be used by a data message at this point
            known_s = sorted(s_ for s_ in known_s if pending.get(s_) is None or pending[s_] in known_s)
            ids = []
            ready = [o for o in sorted(pending) if pending[o] in known_s and o not in used_outer]
            if ready:
                # the first data message after the later definition uses the sequence that had to wait for it
                used_outer.add(ready[0])
                ids = [ready[0], ch.choice(known_e)]
            elif k and ch.bool(1, 2) and [s_ for s_ in known_s if s_ in REPONLY_ALL and any(s_ == sq[0] for td in defs[:k] for sq in td.d)]:
                # a replication-only sequence that an *earlier* definition message defined, used after a later one
                s_ = ch.choice([s_ for s_ in known_s if s_ in REPONLY_ALL and any(s_ == sq[0] for td in defs[:k] for sq in td.d)])
                ids = [s_, ch.choice(known_e)]
            elif k and redefined_in_seq and ch.bool(2, 3):
                # a sequence defined earlier that contains an element re-defined since
                cands = [sq[0] for td in defs[:k + 1] for sq in td.d if set(sq[2]) & redefined_in_seq and sq[0] in known_s
                         and sq[0] not in REPONLY_ALL]
                if cands:
                    ids = [ch.choice(cands)]
            elif k and datas and ch.bool(1, 2):
                # the template of an earlier data message again, now under the newer definitions
                ids = list(ch.choice(datas).ids)
            for _ in range(ch.int(0, 2) if ids else ch.int(1, 5)):
                what = ch.weighted([(3, 'e'), (3, 's'), (1, 'std'), (1, 'rep'), (1, 'deep')])
                if what == 'deep' and known_e:
                    # replications nested three deep, spelled the WMO way (every body listed), and descriptors after them
                    e1, e2, e3, e4 = [ch.choice(known_e) for _ in range(4)]
                    ids += [105000, 31001, e1, 103002, e2, 101002, e3, e4] if ch.bool() else [105002, e1, 103000, 31001, e2, 101002, e3, e4]
                    continue
                if what == 's' and known_s:
                    s = ch.choice(known_s)
                    ids.append(s)
                    if s in REPONLY_ALL:
                        ids.append(ch.choice(known_e))
                elif what == 'rep' and known_e:
                    inner = ch.choice([s for s in known_s if s in REPONLY_ALL] or [None])
                    if inner is not None and ch.bool():
                        ids += [103000, 31001, ch.choice(known_e), inner, ch.choice(known_e)]
                    else:
                        ids += [101000 + ch.int(1, 3), ch.choice(known_e)]
                elif what == 'std':
                    ids.append(ch.choice(STD_ELEMS))
                else:
                    ids.append(ch.choice(known_e))
            mv = ch.choice([33, 25, 40])
            compressed = ch.bool(1, 3)
            nsub = ch.int(1, 3)
            # sometimes the data message names bundled local tables: the definitions govern it all the same
            local = ch.choice([(98, 0, 1), (98, 0, 101), (98, 0, 3)]) if ch.bool(1, 5) else None
            dm = DataMsg(k + 1, mv, ch.choice([3, 4]), ids, compressed, nsub, None, local)
            try:
                tabs = overlay(mv, defs[:k + 1], local)
                dec, b = walk_data(dm, tabs, GenSource(ch))
            except (IllFormed, Unsupported, RecursionError, rwalker.UnknownDescriptor) as e:
                raise Reject('data message rejected by the reference: %s' % str(e)[:50])
            if dec.ambiguous():
                raise Reject('ambiguous construct')
            dm.raws = raws_of(dec, compressed, nsub)
            datas.append(dm)
            order.append(('data', len(datas) - 1))
    return StreamCase(defs, datas, order)


def build_stream(sc):
    """(stream bytes, [(kind, expected values per subset, labels per subset, bytes)])"""
    parts = []
    expected = []
    for kind, k in sc.order:
        if kind == 'def':
            c = sc.defs[k].build()
            parts.append(c.bytes)
            expected.append(('def', c.values(), c.labels(), c.bytes))
        else:
            dm = sc.datas[k]
            tabs = overlay(dm.mv, sc.defs[:dm.after], dm.local)
            dec, b = walk_data(dm, tabs)
            parts.append(b)
            expected.append(('data', [dec.values_of(i) for i in range(dm.nsub)], [dec.labels_of(i) for i in range(dm.nsub)], b))
    # a control message over standard descriptors only
    meta = frame.default_meta(4)
    meta['n_subsets'] = 1
    ctl = gmsg.case_from_raws(meta, [1001, 1002, 12101], subsets=[[17, 345, 27315]])
    parts.append(ctl.bytes)
    expected.append(('control', ctl.values(), ctl.labels(), ctl.bytes))
    sep = b'\r\r\n'
    return sep.join(parts), expected


def decode_stream(stream, cache_max, side=None, options=None):
    """in a forked child: [(values, labels, bytes) | ('error', ...)] for every message the scan yields.  side: the bytes of
    another stream (standard descriptors only) that is scanned from start to end, by another decoder object, after every
    message of the main stream -- a second file opened while the first is still being read"""
    dec = sut.Decoder() if cache_max is None else sut.Decoder(compiled_template_cache_max=cache_max)
    side_dec = sut.Decoder()
    out = []
    try:
        for m in sut.generate_bufr_message(dec, stream, **(options or {})):
            ob = sut.observe(m)
            out.append((ob['values'], ob['labels'], m.serialized_bytes))
            if side is not None:
                for _ in sut.generate_bufr_message(side_dec, side):
                    pass
    except BaseException as e:
        out.append(('error', type(e).__name__, str(e)[:300], sut.innermost_sut_frame(e.__traceback__)))
    # the definitions must not leak into descriptors they do not mention: a standard element afterwards
    return out


def check_stream(sc):
    out = Outcome()
    try:
        stream, expected = build_stream(sc)
    except (IllFormed, Unsupported) as e:
        raise Reject('stream rejected by the reference: %s' % str(e)[:50])
    cls = set()
    for td in sc.defs:
        if any(x[3] != 0 or x[4] != 0 for x in td.b):
            cls.add('nonzero_scale_or_reference')
        if any(x[4] < 0 for x in td.b):
            cls.add('negative_reference')
        if any(any(100000 <= m < 200000 for m in s[2]) for s in td.d):
            cls.add('sequence_with_replication')
        if any(len(s[2]) <= 2 and 101000 <= s[2][0] < 102000 for s in td.d):
            cls.add('replication_only_sequence')
    ids_def = [set(x[0] for x in td.b) | set(x[0] for x in td.d) for td in sc.defs]
    if any(ids_def[i] & ids_def[j] for i in range(len(ids_def)) for j in range(i)):
        cls.add('redefinition')
    if len(sc.defs) > 1:
        cls.add('several_definition_messages')
    for i, td in enumerate(sc.defs):
        if i and not ((set(x[0] for x in td.b) | set(x[0] for x in td.d)) - set().union(*ids_def[:i])):
            cls.add('definition_message_without_new_ids')
    seen_t = {}
    for dm in sc.datas:
        t = tuple(dm.ids)
        if t in seen_t and seen_t[t] != dm.after:
            cls.add('same_template_before_and_after_a_definition')
        seen_t.setdefault(t, dm.after)
    if any(dm.compressed for dm in sc.datas):
        cls.add('compressed_data')
    if any(dm.local for dm in sc.datas):
        cls.add('data_message_names_local_tables')
    defined = set()
    for td in sc.defs:
        here = set(x[0] for x in td.d)
        if any(m // 100000 == 3 and m >= 348000 and m not in defined and m not in here for x in td.d for m in x[2]):
            cls.add('sequence_defined_after_its_user')
        defined |= here
    out.classes = sorted(cls)
    out.nontrivial = bool(cls & {'nonzero_scale_or_reference', 'sequence_with_replication'})
    side = next((e[3] for e in expected if e[0] == 'control'), None)
    out.classes.append('another_stream_scanned_in_between')
    if any(len(td.a) > 1 for td in sc.defs):
        out.classes.append('several_table_a_entries')
    if any(not td.b and td.d for td in sc.defs):
        out.classes.append('definition_message_with_table_d_entries_only')
    if any(len(dm.ids) >= 8 and any(dm.ids[i:i + 2] == [101002, dm.ids[i + 1]] and dm.ids[i - 2] // 1000 == 103 for i in range(2, len(dm.ids) - 1))
           for dm in sc.datas):
        out.classes.append('replications_nested_three_deep')
    if any(td.spelling for td in sc.defs):
        out.classes.append('dictionary_layout_in_another_spelling')
    out.classes.append('scan_without_wiring')
    # the last variant hands the decoder's documented options through the scanner, as the command line's decode -m does
    # (wire_template_data=False) -- the definitions must be taken from the message all the same
    opt = [{'wire_template_data': False}, {'ignore_value_expectation': True}, {'wire_template_data': False, 'ignore_value_expectation': True}][len(stream) % 3]
    for cache_max, interleave, options in ((None, False, None), (4, False, None), (None if len(stream) % 2 else 4, True, None),
                                           (4 if len(stream) % 2 else None, False, opt)):
        try:
            got = forkexec.run(decode_stream, stream, cache_max, side if interleave else None, options)
        except forkexec.ChildFailed as e:
            raise runner.HarnessError('forked child failed: %s' % str(e)[:500])
        tag = ('plain decoder' if cache_max is None else 'compiling decoder') + (', another stream scanned in between' if interleave else '') + \
            (', options %s' % ','.join(sorted(options)) if options else '')
        for k, exp in enumerate(expected):
            kind, evals, elabs, eb = exp
            if k >= len(got):
                out.fail('the scan delivered fewer messages than the stream holds (%s)' % tag, delivered=len(got), expected=len(expected))
                break
            g = got[k]
            if g[0] == 'error':
                out.fail('decoding a %s message after table definitions raised %s@%s (%s)' % (kind, g[1], g[3], tag), error=g[2],
                         message=k)
                break
            if g[2] != eb:
                out.fail('message bytes differ (%s)' % tag, message=k)
                break
            bad = None
            for i in range(len(evals)):
                if g[1][i] != elabs[i]:
                    j = next((x for x, (a, b) in enumerate(zip(g[1][i], elabs[i])) if a != b), min(len(g[1][i]), len(elabs[i])))
                    bad = ('labels', i, j, g[1][i][j:j + 3], elabs[i][j:j + 3])
                    break
                d = first_value_diff(g[0][i], evals[i])
                if d is not None:
                    bad = ('values', i, d[0], d[1], d[2])
                    break
            if bad:
                what = {'def': 'the definition message itself', 'data': 'a data message that uses the defined descriptors',
                        'control': 'a message over standard descriptors only'}[kind]
                out.fail('%s is not decoded according to the definitions in force (%s, %s)' % (what, bad[0], tag), message=k,
                         subset=bad[1], index=bad[2], got=bad[3], expected=bad[4],
                         descriptors=sc.datas[sc.order[k][1]].ids if kind == 'data' else None)
                break
    return out


def run(tier, seed):
    rep = Report(PID, tier, seed, 'exploration')
    rep.rule = ('streams of 1..3 definition messages (1..5 new class 48..63 elements each: width 1..32 / strings to 12 octets, scale -3..6, '
                'reference of either sign up to 10^9, units NUMERIC / CODE TABLE / FLAG TABLE / CCITT IA5 / M / K; 0..4 new sequences: plain, '
                'fixed / delayed replication, nested, NCEP replication-only, replication-only inside an ordinary replication; later messages '
                'may re-define earlier ids; number fields left or right justified) each followed by 0..3 data messages over the defined and '
                'standard descriptors (1..3 subsets, compressed or not, values as in C01) and a final control message; decoded by a plain '
                'and a compiling decoder in forked children.  Non-trivial = a defined element has a non-zero scale or reference, or a defined '
                'sequence holds a replication.')
    rep.assumptions = ['definitions are cumulative and a later definition of the same id replaces the earlier one',
                       'every stream runs in a forked child of a process that never called into the library (definitions are process-global)']
    workers = runner.tier_workers(tier)
    std.replay_files(rep, PID, check_stream, StreamCase.from_json)
    n = 400 if tier == 'quick' else 10000
    runner.run_generated(rep, gen_stream, check_stream, n, workers, shrink_s=40 if tier == 'quick' else 200)
    rep.required_classes = ['nonzero_scale_or_reference', 'negative_reference', 'sequence_with_replication', 'replication_only_sequence',
                            'redefinition', 'several_definition_messages', 'compressed_data', 'definition_message_without_new_ids',
                            'same_template_before_and_after_a_definition']
    return rep.finish()


def replay(path):
    return std.replay_main(PID, path, check_stream, StreamCase.from_json)
