"""C17 -- metadata queries and metadata-only decoding agree with the full decode.

Generator: reference-built messages (editions 2-4, section 2 present/absent, random
identification fields).  Oracle: the generator's own metadata laid out by the reference
section layouts (refbufr.frame); info-only decode vs full decode; noise in the data section;
info-only stream scanning by declared length."""
import hashlib
import json

from vlib import runner, sut, std, fuzz
from vlib.runner import Outcome, Report, Reject
from gen import messages as gmsg, templates as gtemplates
from refbufr import frame
from pybufrkit.mdquery import MetadataExprParser, MetadataQuerent

PID = 'C17'
MetadataExprParsingError = sut.MetadataExprParsingError
_Q = MetadataQuerent(MetadataExprParser())
_DEC = {}


def decoder(kind='plain'):
    if kind not in _DEC:
        _DEC[kind] = sut.Decoder() if kind == 'plain' else sut.Decoder(compiled_template_cache_max=4)
    return _DEC[kind]


ALL_NAMES = []
for ed in (2, 3, 4):
    for idx in range(6):
        for name, nbits, typ in frame.layout(ed, idx):
            if name not in ALL_NAMES:
                ALL_NAMES.append(name)
ALL_NAMES += ['no_such_parameter', 'Length', 'edition ']
INDICES = [0, 1, 2, 3, 4, 5, 6, 9, -1]


def bits_of(b):
    return ''.join(format(c, '08b') for c in bytearray(b))


def expected_sections(case):
    """{section index: [(name, value)]} of the message as the generator built it"""
    meta, info = case.meta, case.info
    ed = meta['edition']
    out = {0: [('start_signature', b'BUFR'), ('length', info['total']), ('edition', ed)]}
    s1 = []
    for name, nbits, typ in frame.layout(ed, 1):
        if name == 'section_length':
            v = info['lengths'][1]
        elif name == 'is_section2_presents':
            v = meta.get('section2') is not None
        elif name == 'flag_bits':
            v = '0' * nbits
        else:
            v = meta[name]
        s1.append((name, v))
    out[1] = s1
    if meta.get('section2') is not None:
        off, ln = info['offsets'][2], info['lengths'][2]
        out[2] = [('section_length', ln), ('reserved_bits', '00000000'), ('local_bits', bits_of(case.bytes[off + 4:off + ln]))]
    out[3] = [('section_length', info['lengths'][3]), ('reserved_bits', '00000000'), ('n_subsets', meta['n_subsets']),
              ('is_observation', bool(meta['is_observation'])), ('is_compressed', bool(meta['is_compressed'])),
              ('flag_bits', '000000'), ('unexpanded_descriptors', list(case.ids))]
    out[4] = [('section_length', info['lengths'][4]), ('reserved_bits', '00000000'), ('template_data', Ellipsis)]
    out[5] = [('stop_signature', b'7777')]
    return out


def same_md(got, exp):
    if isinstance(exp, bytes):
        return got == exp or got == exp.decode('latin-1')
    if isinstance(exp, bool) or isinstance(got, bool):
        return got is exp
    if isinstance(exp, list):
        return list(got) == exp if isinstance(got, (list, tuple)) else False
    return type(got) is type(exp) and got == exp


def expected_query(exp, index, name, info_only):
    secs = sorted(exp)
    if info_only:
        secs = [k for k in secs if k <= 4]
    for k in secs:
        if index is not None and k != index:
            continue
        for n, v in exp[k]:
            if info_only and k == 4 and n == 'template_data':
                continue
            if n == name:
                return True, v
    return False, None


def md_observation(msg, upto=3):
    return [(s.get_metadata('index'), [(p.name, p.value) for p in s]) for s in msg.sections
            if s.get_metadata('index') <= upto]


def noise_payload(case, seed_bytes):
    """the message with the payload of section 4 (after its 4 header octets) replaced by noise"""
    off, ln = case.info['offsets'][4], case.info['lengths'][4]
    n = ln - 4
    noise = (hashlib.sha256(seed_bytes).digest() * (n // 32 + 1))[:n]
    return case.bytes[:off + 4] + noise + case.bytes[off + ln:]


def damaged_data_sections(case):
    """[(class, bytes)]: the message with its data section -- and nothing else -- damaged.  Besides the payload noise: the
    whole section overwritten, its own length octets included, in such a way that the declared section length stays
    between the 4 header octets and the octets that are there (a metadata-only decode steps over the section by that
    length, so a length outside this range is a framing error, not damaged data)."""
    off, ln = case.info['offsets'][4], case.info['lengths'][4]
    b = case.bytes
    h = hashlib.sha256(b[:40] + b'#').digest()
    res = [('noise_in_data_section', noise_payload(case, b[:40]))]
    noise = (h * (ln // 32 + 1))[:ln]
    shorter = 4 + int.from_bytes(h[:4], 'big') % max(1, ln - 3)           # 4 .. ln
    res.append(('data_section_overwritten_shorter_length', b[:off] + shorter.to_bytes(3, 'big') + noise[3:] + b[off + ln:]))
    res.append(('data_section_length_4', b[:off] + (b'\x00\x00\x04\x00' * (ln // 4 + 1))[:ln] + b[off + ln:]))
    if ln > 4:
        cleared = ln & (ln - 1)
        if cleared >= 4:
            res.append(('data_section_length_bit_cleared', b[:off] + cleared.to_bytes(3, 'big') + b[off + 3:]))
    longer = ln + 1 + h[4] % 4                                             # up to the end of the stop signature
    res.append(('data_section_longer_length', b[:off] + longer.to_bytes(3, 'big') + noise[3:] + b[off + ln:]))
    return res


MALFORMED = ['edition', '$edition', '0.edition', 'x%edition', '%x.edition', '%1x.length', '%one.length', '%.length',
             ' length', '%%.x', '% 1 1.length']


def check_case(case):
    out = Outcome()
    meta = case.meta
    ed = meta['edition']
    out.classes = ['edition%d' % ed, 'section2' if meta.get('section2') is not None else 'no_section2'] + \
        sorted(f for f in case.features if f.startswith('c17_'))
    out.nontrivial = True
    exp = expected_sections(case)
    o = sut.call(decoder().process, case.bytes)
    if not o.ok:
        return out.fail('full decode raised %s@%s' % (o.exc_type, o.frame), error=o.msg)
    full = o.value
    infos = {}
    for kw in ({}, {'ignore_value_expectation': True}, {'wire_template_data': False},
               {'ignore_value_expectation': True, 'wire_template_data': False}):
        tag = ','.join(sorted(kw)) or 'default'
        oi = sut.call(decoder().process, case.bytes, info_only=True, **kw)
        if not oi.ok:
            return out.fail('info-only decode raised %s@%s [%s]' % (oi.exc_type, oi.frame, tag), error=oi.msg)
        infos[tag] = oi.value
        m = oi.value
        idxs = [s.get_metadata('index') for s in m.sections]
        if any(i > 4 for i in idxs) or any(p.name == 'template_data' for s in m.sections for p in s):
            out.fail('info-only decode read the data section / end section [%s]' % tag, sections=idxs)
        if md_observation(m) != md_observation(full):
            out.fail('info-only decode differs from the full decode in sections 0-3 [%s]' % tag,
                     info=md_observation(m), full=md_observation(full))
    info = infos['default']
    # every name x every index, on the full and on the info-only message
    nq = 0
    for mode, msg in (('full', full), ('info', info)):
        for name in ALL_NAMES:
            for index in [None] + INDICES:
                expr = '%' + name if index is None else '%%%d.%s' % (index, name)
                if name.endswith(' ') or name != name.strip():
                    expr = expr           # trailing blank is stripped by the parser: still the plain name
                found, want = expected_query(exp, index, name.strip(), mode == 'info')
                nq += 1
                if nq % 5 == 0:
                    # the querent and its parser are long-lived objects: a rejected expression in between leaves nothing behind
                    sut.call(_Q.query, msg, MALFORMED[(nq // 5) % len(MALFORMED)])
                q = sut.call(_Q.query, msg, expr)
                if not q.ok:
                    out.fail('metadata query raised %s (%s message)' % (q.exc_type, mode), expr=expr, error=q.msg)
                    continue
                got = q.value
                if not found:
                    if got is not None:
                        out.fail('query of a parameter that the designated section(s) do not have is not None (%s message)' % mode,
                                 expr=expr, got=got, edition=ed)
                elif want is Ellipsis:
                    if got is None:
                        out.fail('template_data query returned None on a full decode', expr=expr)
                elif not same_md(got, want):
                    out.fail('metadata query returned a wrong value (%s message)' % mode, expr=expr, got=got, expected=want,
                             edition=ed)
    # white space and malformed expressions
    for expr, want in (('  %edition  ', ed), ('\t%0.length\n', case.info['total'])):
        q = sut.call(_Q.query, full, expr)
        if not q.ok or q.value != want:
            out.fail('surrounding white space changes the query', expr=expr, got=repr(q))
    for expr in MALFORMED:
        q = sut.call(_Q.query, full, expr)
        if q.ok:
            out.fail('malformed metadata expression accepted', expr=expr, got=q.value)
        elif not isinstance(q.exc, MetadataExprParsingError):
            out.fail('malformed metadata expression rejected with %s instead of the metadata-parsing error' % q.exc_type,
                     expr=expr, error=q.msg)
    # data section damaged: info-only must still succeed with the same metadata
    for cls, noisy in damaged_data_sections(case):
        if noisy == case.bytes:
            continue
        out.classes.append(cls)
        for kw in ({}, {'ignore_value_expectation': True}):
            on = sut.call(decoder().process, noisy, info_only=True, **kw)
            if not on.ok:
                out.fail('info-only decode of a message with damaged data raised %s@%s' % (on.exc_type, on.frame),
                         error=on.msg, flags=sorted(kw), damage=cls)
            elif md_observation(on.value) != md_observation(full):
                out.fail('info-only decode of a message with damaged data gives other metadata', flags=sorted(kw), damage=cls)
    return out


# ---- streams in info-only mode ------------------------------------------------------------------
class StreamCase(object):
    def __init__(self, cases, seps, pads, noisy):
        self.cases, self.seps, self.pads, self.noisy = cases, seps, pads, noisy
        parts = [seps[0]]
        self.expected = []
        for i, c in enumerate(cases):
            b = noise_payload(c, c.bytes[:40]) if noisy[i] else c.bytes
            if pads[i]:
                # declared total length longer than the message: the declared extent is what a metadata scan takes
                total = len(b) + len(pads[i])
                b = b[:4] + total.to_bytes(3, 'big') + b[7:]
                piece = b + pads[i]
            else:
                piece = b
            self.expected.append(piece)
            parts.append(piece)
            parts.append(seps[i + 1])
        self.stream = b''.join(parts)

    def key(self):
        return hashlib.sha1(self.stream).hexdigest()[:20]

    def summary(self):
        return {'kind': 'info-only stream', 'n_messages': len(self.cases), 'separators': [s.hex() for s in self.seps],
                'declared_longer_by': [len(p) for p in self.pads], 'noisy': self.noisy, 'n_bytes': len(self.stream)}

    def to_json(self):
        return {'kind': 'stream', 'cases': [c.to_json() for c in self.cases], 'seps': [s.hex() for s in self.seps],
                'pads': [p.hex() for p in self.pads], 'noisy': self.noisy}

    @staticmethod
    def from_json(d):
        return StreamCase([gmsg.Case.from_json(c) for c in d['cases']], [bytes.fromhex(s) for s in d['seps']],
                          [bytes.fromhex(s) for s in d['pads']], d['noisy'])


def small_opts(tier):
    opts = gmsg.GenOpts(tier)
    opts.template = gtemplates.Opts(max_ids=5)
    opts.max_subsets = 2
    opts.extra_widths = False
    return opts


SEPS = [b'', b'\r\r\n', b'\x01\r\r\n123\r\r\nIUSK73 AMMC 182300\r\r\n', b'BUF', b'B', b'7777', b'\x00\xff\x00', b'BU FR']


def gen_stream(ch, opts):
    n = ch.int(1, 4)
    cases = [gmsg.gen_case(ch, opts) for _ in range(n)]
    seps = [ch.choice(SEPS) for _ in range(n + 1)]
    pads = [(ch.choice([b'\x00', b'\x00\x00\x00', b'xy7777', b'\r\n']) if ch.bool(1, 4) else b'') for _ in range(n)]
    noisy = [ch.bool() for _ in range(n)]
    return StreamCase(cases, seps, pads, noisy)


def check_stream(case):
    out = Outcome()
    out.nontrivial = len(case.cases) >= 2 or any(case.pads)
    out.classes = ['info_stream'] + (['info_stream_declared_longer'] if any(case.pads) else []) + \
                  (['info_stream_noisy'] if any(case.noisy) else [])
    if case.stream.count(b'BUFR') != len(case.cases) and not any(case.noisy):
        # a start signature inside a message body is fine (the scan advances by declared length), but one
        # in a pad / separator would be a message start: not generated
        pass
    for kw in ({}, {'ignore_value_expectation': True}, {'filter_expr': '${%edition} >= 2'},
               {'filter_expr': '${%length} > 0 and ${%n_subsets} >= 0'}):
        o = sut.call(lambda: [m.serialized_bytes for m in sut.generate_bufr_message(decoder(), case.stream, info_only=True, **kw)])
        if not o.ok:
            out.fail('info-only scan raised %s@%s' % (o.exc_type, o.frame), error=o.msg, flags=sorted(kw))
            continue
        if o.value != case.expected:
            out.fail('info-only scan: message bytes are not the declared extents', n_got=len(o.value), n_expected=len(case.expected),
                     lens_got=[len(x) for x in o.value], lens_expected=[len(x) for x in case.expected], flags=sorted(kw))
    return out


def load_case(d):
    if d.get('kind') == 'stream':
        return StreamCase.from_json(d)
    return gmsg.Case.from_json(d)


def check_any(case):
    return check_stream(case) if isinstance(case, StreamCase) else check_case(case)


# ---- coverage-guided stage: the same generator and oracle, decisions taken from fuzzer bytes (vlib.fuzz) ----
_FUZZ_OPTS = small_opts('quick')


def gen_msg(ch, opts):
    """a message of the shared generator; now and then with a section 2 that is present but empty (length 4), or naming a
    master table version that is not installed (the data is then read with the default tables, the metadata says what
    the message says)"""
    k = ch.weighted([(6, 'plain'), (1, 'empty_section2'), (1, 'uninstalled_version'), (1, 'both')])
    if k == 'plain':
        return gmsg.gen_case(ch, opts)
    if k in ('uninstalled_version', 'both'):
        o2 = gmsg.GenOpts('quick')
        o2.versions, o2.local_tables, o2.max_subsets, o2.extra_widths = [33], False, opts.max_subsets, False
        o2.template = opts.template
        d = gmsg.gen_case(ch, o2).to_json()
        d['meta']['master_table_version'] = ch.choice([42, 5, 99, 255])
    else:
        d = gmsg.gen_case(ch, opts).to_json()
    if k in ('empty_section2', 'both'):
        d['meta']['section2'] = {'hex': ''}
    try:
        c = gmsg.Case.from_json(d)
    except Exception as e:
        raise runner.Reject('relabelled case rejected by the reference: %s' % str(e)[:40])
    if c.decoded.ambiguous():
        raise runner.Reject('ambiguous')
    c.features.add('c17_' + k)
    return c


def _fuzz_gen(ch):
    return gen_msg(ch, _FUZZ_OPTS)


fuzz_case = fuzz.structured_target(_fuzz_gen, check_case)


def run(tier, seed):
    rep = Report(PID, tier, seed, 'exploration')
    rep.rule = ('reference-built messages (editions 2,3,4; section 2 present/absent; random identification fields); for each, every '
                'parameter name of every edition\'s layout (+ unknown names) x section index {none,0..5,6,9,-1} is queried on the '
                'full and on the info-only message (%d queries per message) and compared with the generator\'s metadata; malformed '
                'expressions; info-only vs full decode under 4 flag combinations; info-only on noise-filled data sections; '
                'info-only scanning of streams incl. declared totals longer than the message.  Every message is non-trivial '
                '(each has names that occur in several sections).' % (2 * len(ALL_NAMES) * (len(INDICES) + 1)))
    rep.assumptions = ['expected values come from the generator\'s metadata and the FM-94 octet layouts in refbufr.frame',
                       'empty / blank expressions and names containing "." are outside the statement (not generated)']
    workers = runner.tier_workers(tier)
    std.replay_files(rep, PID, check_any, load_case)
    opts = small_opts(tier)
    n = 800 if tier == 'quick' else 6000
    runner.run_generated(rep, lambda ch: gen_msg(ch, opts), check_case, n, workers)
    n = 800 if tier == 'quick' else 8000
    runner.run_generated(rep, lambda ch: gen_stream(ch, opts), check_stream, n, workers, stage='info-only streams')
    rep.required_classes = ['edition2', 'edition3', 'edition4', 'section2', 'no_section2', 'noise_in_data_section',
                            'data_section_overwritten_shorter_length', 'data_section_length_4', 'data_section_longer_length',
                            'info_stream_declared_longer', 'info_stream_noisy']
    rep.extra['queries_per_message'] = 2 * len(ALL_NAMES) * (len(INDICES) + 1)
    fuzz.run_structured(rep, 'checks.c17', _fuzz_gen, tier)
    return rep.finish()


def replay(path):
    return std.replay_main(PID, path, check_any, load_case)
