"""C04 -- section framing and length accounting are exact in both directions.

Enumerated: editions {2,3,4} x section 2 {absent, 0, 1, 2, 5 octets} x data sections of every
bit length 1..48 (every residue mod 16 at three sizes) x odd/even descriptor count, through the
encoder in recompute mode and in honour-declared-length mode with every section's declared
length moved by {0,+1,+2,+5,-1,-2} and the total {0, right, wrong}.  Decoder side: surplus
octets per section, trailing bytes, shortened sections.  Oracle: refbufr.frame (independent
builder and strict parser)."""
import hashlib
import json

from vlib import runner, sut, std, encutil, fuzz
from vlib.compare import first_value_diff
from vlib.runner import Outcome, Report, Reject
from gen import messages as gmsg, streams as gstreams
from refbufr import frame, message as rmessage, IllFormed

PID = 'C04'
PyBufrKitError = sut.PyBufrKitError
E16, E8 = 1126, 5041          # 16-bit and 8-bit numerics of scale 0 / reference 0 (master table 33)
S2_CHOICES = [None, b'', b'\x01', b'\xab\xcd', b'BUFR7']
DELTAS = [0, 1, 2, 5, -1, -2]
_ENC = {}
_DEC = {}


def encoder(honour):
    if honour not in _ENC:
        _ENC[honour] = sut.Encoder(ignore_declared_length=not honour)
    return _ENC[honour]


def decoder():
    if 'd' not in _DEC:
        _DEC['d'] = sut.Decoder()
    return _DEC['d']


def base_case(edition, s2, w, even):
    meta = frame.default_meta(edition)
    meta['section2'] = s2
    meta['n_subsets'] = 1
    ids = [201000 + 128 + (w - 16), E16, 201000]
    raws = [(0x5a5a5a5a5a5a5a >> 3) % ((1 << w) - 1) if w > 1 else 1]
    if even:
        ids = [E8] + ids
        raws = [0xa5] + raws
    return gmsg.case_from_raws(meta, ids, subsets=[raws])


def sections_of(case):
    return sorted(k for k in case.info['lengths'])


def parse_and_compare(out, what, got, expected):
    """got must be exactly the reference bytes, and must be accepted by the strict parser"""
    if got != expected:
        k = next((i for i, (a, b) in enumerate(zip(got, expected)) if a != b), min(len(got), len(expected)))
        out.fail('%s: bytes differ from the reference framing' % what, first_difference_at=k, n_got=len(got),
                 n_expected=len(expected), got=got[max(0, k - 4):k + 8], expected=expected[max(0, k - 4):k + 8])
        return False
    return True


def structural(out, what, got, msg):
    """independent of the reference builder: BUFR..7777, total == len, section lengths == extents, pads zero"""
    if got[:4] != b'BUFR' or got[-4:] != b'7777':
        return out.fail('%s: message does not start with BUFR / end with 7777' % what)
    if int.from_bytes(got[4:7], 'big') != len(got):
        return out.fail('%s: section-0 length is not the number of bytes produced' % what,
                        declared=int.from_bytes(got[4:7], 'big'), n_bytes=len(got))
    try:
        p = frame.parse(got, 0, allow_trailing=False)
        rm = rmessage.decode(got, strict_padding=True)
    except IllFormed as e:
        return out.fail('%s: the strict reference parser rejects the encoder output' % what, why=str(e))
    if p.edition <= 3 and any(v % 2 for v in p.section_lengths.values()):
        return out.fail('%s: a section of an edition <= 3 message has an odd number of octets' % what, lengths=p.section_lengths)
    if msg is not None:
        if msg.length.value != len(got):
            out.fail('%s: msg.length.value is not the number of bytes' % what, got=msg.length.value, n=len(got))
        for s in msg.sections:
            k = s.get_metadata('index')
            if k in p.section_lengths and s.section_length.value != p.section_lengths[k]:
                out.fail('%s: section_length.value of the message object is not the real extent' % what, section=k,
                         got=s.section_length.value, real=p.section_lengths[k])
    return None


def check_cell(cell):
    """one cell of the enumeration -> [(clause, detail)]"""
    edition, s2i, w, even = cell
    s2 = S2_CHOICES[s2i]
    out = Outcome()

    def ctx(**d):
        d.update({'edition': edition, 'section2': None if s2 is None else s2.hex(), 'data_bits': w + (8 if even else 0),
                  'n_descriptors': 4 if even else 3})
        return d
    case = base_case(edition, s2, w, even)
    ref = case.bytes
    flat = encutil.flat_json_of_case(case)
    n_enc = 0
    # recompute mode (the default), declared lengths given as 0 and as garbage
    for lengths, total, tag in (({}, 0, 'recompute, lengths 0'), ({1: 99, 3: 3, 4: 1000}, 12345, 'recompute, declared lengths garbage'),
                                ({1: 3, 2: 77, 3: 999, 4: 5}, 1, 'recompute, declared lengths garbage (section 2 too long)'),
                                ({1: 1000, 2: 4, 3: 7, 4: 4}, 8, 'recompute, declared lengths garbage (every section too short)')):
        fj = encutil.flat_json_of_case(case, lengths=lengths, total=total)
        o = sut.call(encoder(False).process, fj)
        n_enc += 1
        if not o.ok:
            out.fail('encoder raised %s@%s [%s]' % (o.exc_type, o.frame, tag), **ctx(error=o.msg))
            continue
        got = o.value.serialized_bytes
        structural(out, tag, got, o.value)
        parse_and_compare(out, tag, got, ref)
    # the same input as the library itself hands it out: signatures (and character values) as byte strings -- what subset(), the
    # text converters and a rendering passed straight on to the encoder contain
    fj = encutil.flat_json_of_case(case, as_str=False)
    fj[0][0], fj[-1][0] = b'BUFR', b'7777'
    inputs = [('signatures given as byte strings', fj)]
    od = sut.call(decoder().process, ref)
    if od.ok:
        inputs.append(('the flat JSON rendering of the decoded message, handed over as it is', sut.FlatJsonRenderer().render(od.value)))
        inputs.append(('subset() of the decoded message', od.value.subset(range(case.nsub))))
    for tag, arg in inputs:
        o = sut.call(encoder(False).process, arg)
        n_enc += 1
        if not o.ok:
            out.fail('encoder raised %s@%s [%s]' % (o.exc_type, o.frame, tag), **ctx(error=o.msg))
            continue
        structural(out, tag, o.value.serialized_bytes, o.value)
        parse_and_compare(out, tag, o.value.serialized_bytes, ref)
    # a local part of section 2 that stops inside an octet (the encoder takes it as a bit string of any length): the section is
    # zero-padded to whole octets like any other, and the message is the one with the padded local part
    if s2 is not None:
        for extra in ('1', '101', '0000001', '1' * 13):
            fj = encutil.flat_json_of_case(case)
            fj[2][2] = fj[2][2] + extra
            padded = fj[2][2] + '0' * (-len(fj[2][2]) % 8)
            meta2 = dict(case.meta, section2=bytes(int(padded[i:i + 8], 2) for i in range(0, len(padded), 8)))
            exp = frame.build(meta2, case.ids, case.data_bits)[0]
            tag = 'section 2 local part of %d bits' % len(fj[2][2])
            o = sut.call(encoder(False).process, fj)
            n_enc += 1
            if not o.ok:
                out.fail('encoder raised %s@%s [%s]' % (o.exc_type, o.frame, tag), **ctx(error=o.msg))
                continue
            structural(out, tag, o.value.serialized_bytes, o.value)
            parse_and_compare(out, tag, o.value.serialized_bytes, exp)
    # honour mode
    real = dict(case.info['lengths'])
    for k in sections_of(case):
        for delta in DELTAS:
            declared = real[k] + delta
            for total_mode in ('zero', 'right', 'wrong') if delta in (0, 2) else ('zero',):
                if delta < 0:
                    exp = None
                else:
                    exp, info = frame.build(case.meta, case.ids, case.data_bits, surplus={k: delta})
                tot = 0
                if total_mode == 'right':
                    tot = len(exp) if exp is not None else 0
                elif total_mode == 'wrong':
                    tot = len(exp) + 2
                lengths = {j: real[j] for j in real}
                lengths[k] = declared
                # other sections: sometimes declared exactly, sometimes left to be computed (0)
                if (k + delta) % 2:
                    for j in lengths:
                        if j != k:
                            lengths[j] = 0
                fj = encutil.flat_json_of_case(case, lengths=lengths, total=tot)
                o = sut.call(encoder(True).process, fj)
                n_enc += 1
                tag = 'honour declared lengths: section %d %+d, total %s' % (k, delta, total_mode)
                if delta < 0:
                    if o.ok:
                        out.fail('a declared section length shorter than the content is not refused', **ctx(section=k, delta=delta))
                    continue
                if total_mode == 'wrong':
                    if o.ok:
                        out.fail('a declared total length that disagrees with the bytes written is not refused', **ctx(section=k, delta=delta))
                    continue
                if not o.ok:
                    out.fail('encoder raised %s@%s [%s]' % (o.exc_type, o.frame, tag), **ctx(error=o.msg))
                    continue
                got = o.value.serialized_bytes
                if not parse_and_compare(out, tag, got, exp):
                    continue
                if int.from_bytes(got[4:7], 'big') != len(got) or o.value.length.value != len(got):
                    out.fail('%s: total length not consistent' % tag, **ctx())
                # and the decoder consumes exactly the declared extents of what the encoder wrote
                if k == 3 and declared - 7 - 2 * len(case.ids) >= 2:
                    continue      # two zero octets at the end of section 3 are a descriptor 000000 by definition (DESIGN 10-3)
                od = sut.call(decoder().process, got + b'7777')
                if not od.ok:
                    out.fail('decoder raised %s on the zero-filled message [%s]' % (od.exc_type, tag), **ctx(error=od.msg))
                elif od.value.serialized_bytes != got:
                    out.fail('decoder: serialized_bytes is not the span BUFR..7777 [%s]' % tag, **ctx())
    return [(c, d) for c, d in out.failures], n_enc


# ---- decoder side: surplus octets, trailing bytes, shortened sections -----------------------------
class FrameCase(object):
    def __init__(self, case, surplus, tail, shorten, lead=b'', total_delta=0):
        self.case, self.surplus, self.tail, self.shorten, self.lead = case, surplus, tail, shorten, lead
        self.total_delta = total_delta     # the total length of section 0 declared this much off the real extent
        self.bytes, self.info = frame.build(case.meta, case.ids, case.data_bits, surplus=surplus)
        if total_delta:
            self.bytes, self.info = frame.build(case.meta, case.ids, case.data_bits, surplus=surplus,
                                                declared_total=len(self.bytes) + total_delta)

    def key(self):
        return hashlib.sha1(self.lead + self.bytes + self.tail + repr((self.shorten, self.total_delta)).encode()).hexdigest()[:20]

    def summary(self):
        return {'edition': self.case.meta['edition'], 'section2': self.case.meta.get('section2') is not None,
                'surplus_octets': self.surplus, 'leading': self.lead.hex(), 'trailing': self.tail[:12].hex(), 'shortened': self.shorten,
                'descriptors': ['%06d' % i for i in self.case.ids], 'n_bytes': len(self.bytes)}

    def to_json(self):
        return {'case': self.case.to_json(), 'surplus': {str(k): v for k, v in self.surplus.items()}, 'tail': self.tail.hex(),
                'shorten': self.shorten, 'lead': self.lead.hex(), 'total_delta': self.total_delta}

    @staticmethod
    def from_json(d):
        return FrameCase(gmsg.Case.from_json(d['case']), {int(k): v for k, v in d['surplus'].items()}, bytes.fromhex(d['tail']),
                         d.get('shorten'), bytes.fromhex(d.get('lead', '')), d.get('total_delta', 0))


TAILS = [b'', b'\x00\x00', b'7777', b'BUFR', b'BUF', b'\xff\xfe\xfd', b'7777BUFR\x00\x00\x20\x04']
# bytes in front of the start signature (the decoder looks for it): "the span from BUFR to 7777" whatever surrounds it
LEADS = [b'\r\r\n', b'\x01\r\r\n001\r\r\nISMD01 OKPR 120000\r\r\n', b'BUF', b'7777', b'\x00', b'BU\x00FR' * 5]


def gen_frame(ch, opts):
    case = gmsg.gen_case(ch, opts)
    ed = case.meta['edition']
    if ch.bool(1, 5):
        # the stop signature's octets inside the message, octet aligned: in the local-use octets of section 2
        case.meta['section2'] = ch.choice([b'7777', b'RDB7777 ', b'77777', b'x7777BUFR', b'7777' * 3])
        case.features.add('section2')
        gmsg.build_bytes(case)
    surplus = {}
    for k in (1, 2, 4):
        if k == 2 and case.meta.get('section2') is None:
            continue
        if ch.bool(1, 2):
            surplus[k] = ch.choice([1, 2, 5])
    if ed == 4 and ch.bool(1, 3):
        surplus[3] = 1           # DESIGN 10-3: two or more surplus octets in section 3 are descriptors
    tail = ch.choice(TAILS)
    if ch.bool(1, 6):
        tail = case.bytes        # another message right behind
    shorten = None
    if ch.bool(1, 3):
        secs = [k for k in (1, 2, 3, 4) if k != 2 or case.meta.get('section2') is not None]
        shorten = [ch.choice(secs), ch.int(1, 3)]
    lead = ch.choice(LEADS) if ch.bool(1, 3) else b''
    # the total length of section 0 declared wrongly: a full decode follows the sections, the message's bytes stay the span
    # from BUFR to 7777 whatever the total says and whatever follows
    total_delta = ch.choice([1, 2, 4, 8, 60, -1, -4]) if (shorten is None and ch.bool(1, 5)) else 0
    return FrameCase(case, surplus, tail, shorten, lead, total_delta)


def content_octets(fc, k):
    """octets of section k that hold content (without pad / surplus octets)"""
    case = fc.case
    ed = case.meta['edition']
    if k == 1:
        return sum(n for _, n, _ in frame.SECTION1[ed]) // 8
    if k == 2:
        return 4 + len(case.meta['section2'])
    if k == 3:
        return 7 + 2 * len(case.ids)
    return 4 + (len(case.data_bits) + 7) // 8


def check_frame(fc):
    out = Outcome()
    case = fc.case
    out.nontrivial = bool(fc.surplus) or bool(fc.tail) or bool(fc.lead) or fc.shorten is not None
    out.classes = ['decoder_frame', 'edition%d' % case.meta['edition']] + ['surplus_in_section_%d' % k for k in fc.surplus]
    if fc.tail:
        out.classes.append('trailing_bytes')
    if fc.lead:
        out.classes.append('leading_bytes')
    b = fc.bytes
    o = sut.call(decoder().process, fc.lead + b + fc.tail)
    if not o.ok:
        return out.fail('decode of a message with surplus octets / trailing bytes raised %s@%s' % (o.exc_type, o.frame),
                        error=o.msg, surplus=fc.surplus)
    m = o.value
    if m.serialized_bytes != b:
        out.fail('serialized_bytes is not exactly the span from BUFR to 7777', n_got=len(m.serialized_bytes), n=len(b),
                 surplus=fc.surplus, tail=fc.tail[:8], lead=fc.lead[:8])
    if fc.total_delta:
        out.classes.append('declared_total_off')
    if m.length.value != len(b) + fc.total_delta:
        out.fail('length.value differs from the declared total', got=m.length.value)
    for s in m.sections:
        k = s.get_metadata('index')
        if k in fc.info['lengths'] and s.section_length.value != fc.info['lengths'][k]:
            out.fail('section_length.value is not the declared length', section=k, got=s.section_length.value,
                     declared=fc.info['lengths'][k])
    ob = sut.observe(m)
    for i in range(case.nsub):
        d = first_value_diff(ob['values'][i], case.values()[i])
        if d is not None:
            out.fail('surplus octets / trailing bytes change the decoded values', subset=i, index=d[0], got=d[1], expected=d[2],
                     surplus=fc.surplus)
            break
    # the decoder's options change nothing about the framing of a well-formed message
    for kw in ({'ignore_value_expectation': True}, {'wire_template_data': False},
               {'ignore_value_expectation': True, 'wire_template_data': False}):
        o2 = sut.call(decoder().process, fc.lead + b + fc.tail, **kw)
        tag = ','.join(sorted(kw))
        if not o2.ok:
            out.fail('decode of the same message with [%s] raised %s@%s' % (tag, o2.exc_type, o2.frame), error=o2.msg,
                     surplus=fc.surplus, section2=case.meta.get('section2') is not None)
            continue
        m2 = o2.value
        if m2.serialized_bytes != b:
            out.fail('serialized_bytes is not exactly the span from BUFR to 7777 [%s]' % tag, n_got=len(m2.serialized_bytes), n=len(b))
        got_lens = {s.get_metadata('index'): s.section_length.value for s in m2.sections if 'section_length' in s}
        want_lens = {k: v for k, v in fc.info['lengths'].items() if k in (1, 2, 3, 4)}
        if got_lens != want_lens:
            out.fail('sections / section lengths differ with [%s]' % tag, got=got_lens, declared=want_lens)
        ob2 = sut.observe(m2) if kw.get('wire_template_data', True) else {'values': m2.template_data.value.decoded_values_all_subsets}
        for i in range(case.nsub):
            d = first_value_diff(ob2['values'][i], case.values()[i])
            if d is not None:
                out.fail('decoded values differ with [%s]' % tag, subset=i, index=d[0], got=d[1], expected=d[2])
                break
    # the same through the stream scanner (the entry point behind decode -m, info -m, split): the first message it
    # delivers is this message, with exactly its declared extent, whatever its sections hold and whatever follows
    if b'7777' in b[:-4]:
        out.classes.append('stop_signature_octets_inside_the_message')
    for kw in ({}, {'info_only': True}):
        if kw and fc.total_delta:
            continue            # a metadata-only scan has nothing but the declared total to go by (C17)
        tag = 'scan' + ('/info_only' if kw else '')
        o3 = sut.call(lambda: next(sut.generate_bufr_message(decoder(), fc.lead + b + fc.tail, **kw)))
        if not o3.ok:
            out.fail('%s: scanning the input for its first message raised %s@%s' % (tag, o3.exc_type, o3.frame), error=o3.msg,
                     section2=case.meta.get('section2'))
            continue
        m3 = o3.value
        if m3.serialized_bytes != b:
            out.fail('%s: serialized_bytes of the delivered message is not exactly the span from BUFR to 7777' % tag,
                     n_got=len(m3.serialized_bytes), n=len(b))
        if m3.length.value != len(b) + fc.total_delta:
            out.fail('%s: length.value differs from the declared total' % tag, got=m3.length.value)
    if fc.shorten:
        k, d = fc.shorten
        out.classes.append('shortened_section_%d' % k)
        content = content_octets(fc, k)
        declared = content - d
        if declared >= 4 or (k == 1 and declared >= 3):
            # a message without surplus octets whose section k declares less than its content
            plain, info = frame.build(case.meta, case.ids, case.data_bits)
            off = info['offsets'][k]
            dam = bytearray(plain)
            dam[off:off + 3] = declared.to_bytes(3, 'big')
            dam = bytes(dam)
            coincidence = False
            try:
                rmessage.decode(dam + fc.tail, 0, strict_padding=False, ignore_total=True)
                coincidence = True
            except Exception:
                pass
            if coincidence:
                raise Reject('shortened section still parses for a reader that ignores the total length')
            o = sut.call(decoder().process, dam + fc.tail)
            if o.ok:
                out.fail('a section whose declared length is shorter than its content is not reported as an error',
                         section=k, declared=declared, content=content)
            elif k in (1, 4) and not isinstance(o.exc, PyBufrKitError):
                out.fail('a shortened section %d is reported as %s, not the library error' % (k, o.exc_type), error=o.msg,
                         declared=declared, content=content)
            if k == 4:
                # the same, consistently: the section really is that short (octets cut from its end, total adjusted),
                # so the data described by the template does not fit into it
                off, real = info['offsets'][4], info['lengths'][4]
                cut = plain[:off] + declared.to_bytes(3, 'big') + plain[off + 3:off + declared] + b'7777'
                cut = cut[:4] + len(cut).to_bytes(3, 'big') + cut[7:]
                out.classes.append('section4_cut_%s' % ('unaligned' if len(case.data_bits) % 8 else 'aligned'))
                try:
                    rmessage.decode(cut + fc.tail, 0, strict_padding=False, ignore_total=True)
                    raise Reject('cut section still holds the data')
                except Reject:
                    raise
                except Exception:
                    pass
                o = sut.call(decoder().process, cut + fc.tail)
                if o.ok:
                    out.fail('data that do not fit the declared (and real) length of section 4 are not reported as an error',
                             declared=declared, content=content, data_bits=len(case.data_bits))
                elif not isinstance(o.exc, PyBufrKitError):
                    out.fail('data overrunning section 4 are reported as %s, not the library error' % o.exc_type, error=o.msg)
    return out


def empty_template_frames():
    out = []
    for edition in (2, 3, 4):
        for n in (0, 1, 3):
            for s2 in (None, b'xy'):
                meta = frame.default_meta(edition)
                meta.update({'master_table_version': 33, 'n_subsets': n, 'is_compressed': False, 'section2': s2})
                case = gmsg.case_from_raws(meta, [], subsets=[[] for _ in range(n)])
                out.append(FrameCase(case, {}, b'', None))
                out.append(FrameCase(case, {1: 1, 4: 2}, b'7777', None, b'\r\r\n'))
    return out


def cells():
    out = []
    for edition in (2, 3, 4):
        for s2i in range(len(S2_CHOICES)):
            for w in range(1, 49):
                for even in (False, True):
                    out.append((edition, s2i, w, even))
    return out


# ---- coverage-guided stage: the same generator and oracle, decisions taken from fuzzer bytes (vlib.fuzz) ----
_FUZZ_OPTS = gstreams.small_opts('quick', max_ids=8)


def _fuzz_gen(ch):
    return gen_frame(ch, _FUZZ_OPTS)


fuzz_case = fuzz.structured_target(_fuzz_gen, check_frame)


def run(tier, seed):
    rep = Report(PID, tier, seed, 'exploration')
    rep.rule = ('enumerated encoder cells: edition {2,3,4} x section 2 {absent, 0, 1, 2, 5 octets} x data section of 1..48 bits (odd '
                'descriptor count) and 9..56 bits (even count): recompute mode with declared lengths 0 and garbage, honour mode with each '
                'section declared {0,+1,+2,+5,-1,-2} off its extent and the total {0, right, wrong}; each output checked structurally, by '
                'the strict reference parser and byte-for-byte against the reference framing, and fed back to the decoder with trailing '
                'bytes.  Decoder side (generated): surplus octets 1/2/5 in sections 1, 2, 4 (1 in section 3, edition 4), 7 kinds of '
                'trailing bytes or another message, sections declared 1..3 octets shorter than their content.  All enumerated cells '
                'are distinct and non-trivial; a generated case is non-trivial when it has surplus octets, trailing bytes or a shortened section.')
    rep.assumptions = ['refbufr.frame is the canonical framing (FM-94 octet layouts, zero padding, even sections for editions <= 3)',
                       'section 3 can hold at most one surplus octet (two are a descriptor); shortened sections that still parse for a '
                       'reader that ignores the total length are dropped and counted']
    workers = runner.tier_workers(tier)
    std.replay_files(rep, PID, check_frame, FrameCase.from_json)
    cs = cells()
    res = runner.run_enumerated(cs, check_cell, workers, chunk=30)
    n_enc = 0
    for cell, (fails, k) in zip(cs, res):
        n_enc += k
        rep.add_case('cell:%r' % (cell,), True, ['encoder_cell', 'encoder_edition%d' % cell[0], 'residue_%d' % ((cell[2] + (8 if cell[3] else 0)) % 16)],
                     {'cell': {'edition': cell[0], 'section2': cell[1], 'data_bits': cell[2] + (8 if cell[3] else 0)}}
                     if cell in ((3, 2, 13, False), (4, 0, 48, True)) else None)
        for clause, detail in fails:
            rep.add_failure('encoder: ' + clause, detail, {'cell': list(cell)}, stage='enumeration')
    rep.exhaustive = True
    rep.extra['encoder_cells'] = len(cs)
    rep.extra['encodes'] = n_enc
    # the data section of zero bits: a message without descriptors (section 3 is its seven fixed octets, eight for
    # editions <= 3), with 0, 1 and 3 subsets -- both directions
    for fc in empty_template_frames():
        out = check_frame(fc)
        o = sut.call(encoder(False).process, encutil.flat_json_of_case(fc.case))
        if not o.ok:
            out.fail('encoder raised %s@%s on a message without descriptors' % (o.exc_type, o.frame), error=o.msg)
        elif o.value.serialized_bytes != fc.case.bytes:
            out.fail('encoder: a message without descriptors is not byte-identical to the independently built one',
                     got=o.value.serialized_bytes.hex(), expected=fc.case.bytes.hex())
        rep.add_case('empty:' + fc.key(), True, ['data_section_of_zero_bits'] + sorted(out.classes), None)
        for clause, detail in out.failures:
            rep.add_failure('no descriptors: ' + clause, detail, fc.to_json(), stage='decoder framing')
    opts = gstreams.small_opts(tier, max_ids=8)
    n = 1500 if tier == 'quick' else 50000
    runner.run_generated(rep, lambda ch: gen_frame(ch, opts), check_frame, n, workers, stage='decoder framing')
    rep.required_classes = ['surplus_in_section_1', 'surplus_in_section_2', 'surplus_in_section_3', 'surplus_in_section_4',
                            'trailing_bytes', 'shortened_section_1', 'shortened_section_2', 'shortened_section_3',
                            'shortened_section_4', 'section4_cut_unaligned', 'section4_cut_aligned'] + ['residue_%d' % r for r in range(16)]
    fuzz.run_structured(rep, 'checks.c04', _fuzz_gen, tier)
    return rep.finish()


def replay(path):
    with open(path) as f:
        d = json.load(f)
    if 'cell' in d['case']:
        fails, _ = check_cell(tuple(d['case']['cell']))
        for clause, detail in fails:
            print('VIOLATION property=%s replay=%s' % (PID, path))
            print('  clause: %s detail: %s' % (clause, json.dumps(runner.jsonable(detail))[:600]))
        if not fails:
            print('replay %s: property holds' % path)
        return 1 if fails else 0
    return std.replay_main(PID, path, check_frame, FrameCase.from_json)
