"""C10 -- subsetting keeps exactly the selected subsets and nothing else changes.

Generator: C01 messages (compressed or not, 1..n subsets) x index collections (single, full,
first/last, any order, repeats, list / tuple / set, out of range by one) + sample-corpus
messages with several subsets.  Oracle: the reference values of the selected subsets; the
encoded result is also decoded by the independent reference decoder ("a valid message")."""
import hashlib
import json
import os

from vlib import runner, sut, std, cli, corpusio, fuzz
from vlib.compare import first_value_diff, same_value
from vlib.runner import Outcome, Report, Reject
from gen import messages as gmsg, templates as gtemplates
from refbufr import message as rmessage, IllFormed, Unsupported

PID = 'C10'
_DEC = {}
_ENC = {}


def decoder(kind='plain'):
    if kind not in _DEC:
        _DEC[kind] = sut.Decoder() if kind == 'plain' else sut.Decoder(compiled_template_cache_max=3)
    return _DEC[kind]


def encoder(kind='plain'):
    if kind not in _ENC:
        # another encoder object of the process was asked to replace the table numbers it writes (documented constructor
        # arguments): what it was told is its own business, an extract written by any other encoder keeps its metadata
        _ENC.setdefault('overriding', sut.Encoder(master_table_number=3, master_table_version=29))
        _ENC[kind] = sut.Encoder() if kind == 'plain' else sut.Encoder(compiled_template_cache_max=3)
    return _ENC[kind]


class SubCase(object):
    def __init__(self, case, indices, container, bad=None, indices2=None):
        self.case, self.indices, self.container, self.bad = case, indices, container, bad
        self.indices2 = indices2        # a second extraction from the same message object (history clause)

    def key(self):
        return hashlib.sha1((self.case.key() + repr((self.indices, self.container, self.bad, self.indices2))).encode()).hexdigest()[:20]

    def collection(self, idx=None):
        idx = self.indices if idx is None else idx
        return {'list': list, 'tuple': tuple, 'set': set, 'frozenset': frozenset}[self.container](idx)

    def summary(self):
        s = self.case.summary()
        s.update({'indices': self.indices, 'container': self.container, 'out_of_range_probe': self.bad,
                  'second_extraction': self.indices2})
        return s

    def to_json(self):
        return {'case': self.case.to_json(), 'indices': self.indices, 'container': self.container, 'bad': self.bad,
                'indices2': self.indices2}

    @staticmethod
    def from_json(d):
        return SubCase(gmsg.Case.from_json(d['case']), list(d['indices']), d['container'], d.get('bad'), d.get('indices2'))


def gen_indices(ch, n):
    kind = ch.weighted([(2, 'single'), (2, 'full'), (2, 'ends'), (4, 'random'), (3, 'repeats'), (2, 'reversed'), (1, 'all_but_one')])
    if kind == 'single':
        return [ch.int(0, n - 1)], kind
    if kind == 'full':
        return list(range(n)), kind
    if kind == 'ends':
        return [n - 1, 0] if ch.bool() else [0, n - 1], kind
    if kind == 'reversed':
        return list(range(n - 1, -1, -1)), kind
    if kind == 'all_but_one':
        k = ch.int(0, n - 1)
        return [i for i in range(n) if i != k] or [0], kind
    m = ch.int(1, min(n + 2, 8))
    idx = [ch.int(0, n - 1) for _ in range(m)]
    if kind == 'repeats':
        idx = idx + [idx[ch.int(0, len(idx) - 1)]]
    return idx, kind


_MANY = {}


def many_subsets_opts(opts):
    """small templates with up to 24 subsets (selections from a message with more subsets than a few)"""
    if opts.tier not in _MANY:
        o = gmsg.GenOpts(opts.tier)
        o.min_subsets, o.max_subsets = 9, 24
        o.template = gtemplates.Opts(max_ids=6)
        o.extra_widths = False
        _MANY[opts.tier] = o
    return _MANY[opts.tier]


def gen_case(ch, opts):
    many = ch.bool(1, 5)
    case = gmsg.gen_case(ch, many_subsets_opts(opts) if many else opts)
    n = case.nsub
    idx, kind = gen_indices(ch, n)
    if case.ones_by_sum:
        # a numeric column that holds the all-ones pattern as minimum + difference: select only rows that hold it, so the
        # reduced column consists of that one value (the encoder's all-equal path meets the all-ones pattern as a number)
        fs = case.decoded.subsets[0].fields
        cols = [k for k, flag in enumerate(case.ones_by_sum) if flag and fs[k].kind == 'num']
        if cols and ch.bool(2, 3):
            k = ch.choice(cols)
            rows = [i for i in range(n) if fs[k].is_missing_raw(case.decoded.raw(i, k))]
            m = ch.int(1, len(rows))
            idx, kind = [rows[ch.int(0, len(rows) - 1)] for _ in range(m)], 'rows_with_all_ones_pattern'
    container = ch.weighted([(4, 'list'), (2, 'tuple'), (2, 'set'), (1, 'frozenset')])
    bad = None
    if ch.bool(1, 3):
        bad = ch.choice([[n], [-1], [0, n], [n - 1, -1], [n + 5]])
    idx2 = gen_indices(ch, n)[0] if ch.bool() else None
    sc = SubCase(case, idx, container, bad, idx2)
    sc.kind = kind
    sc.many = many
    return sc


def column_status_changes(case, sel):
    """compressed: does the selection turn a non-constant column into a constant one (or all missing)?"""
    if not case.compressed:
        return False
    for f in case.decoded.subsets[0].fields:
        if f.kind == 'const' or f.raws is None:
            continue
        if len(set(map(repr, f.raws))) > 1 and len(set(repr(f.raws[i]) for i in sel)) == 1:
            return True
    return False


def md_of(msg):
    out = []
    for s in msg.sections:
        k = s.get_metadata('index')
        if k > 3:
            continue
        for p in s:
            if p.name in ('section_length', 'length', 'n_subsets'):
                continue
            out.append((k, p.name, p.value))
    return out


def diff_upto_all_ones(got, exp, fields):
    """first_value_diff, except that where the reference says missing because the field's bits are all ones the
    number those bits would otherwise stand for is accepted as well (the statement's "up to FM-94's identification of
    a field's all-ones pattern with missing": a compressed column can hold that pattern as minimum + difference, which
    the library reads as the number)"""
    if fields is None or len(got) != len(exp):
        return first_value_diff(got, exp)
    for k, (g, e) in enumerate(zip(got, exp)):
        if same_value(g, e):
            continue
        if e is None and g is not None and fields[k].kind == 'num' and same_value(g, fields[k].ones_value()):
            continue
        return (k, g, e)
    return None


def check_selection(out, what, src_msg, sel_expected_values, sel_expected_labels, indices_obj, n_distinct, case_meta, ids, kind='plain',
                    sel_fields=None):
    """subset -> encode -> decode and compare with the expected value lists"""
    o = sut.call(src_msg.subset, indices_obj)
    if not o.ok:
        return out.fail('%s: subset() raised %s@%s' % (what, o.exc_type, o.frame), error=o.msg)
    data = o.value
    oe = sut.call(encoder(kind).process, data)
    if not oe.ok:
        return out.fail('%s: encoding the subset raised %s@%s' % (what, oe.exc_type, oe.frame), error=oe.msg)
    b = oe.value.serialized_bytes
    od = sut.call(decoder(kind).process, b)
    if not od.ok:
        return out.fail('%s: the encoded subset does not decode: %s@%s' % (what, od.exc_type, od.frame), error=od.msg)
    d = od.value
    if d.n_subsets.value != n_distinct:
        return out.fail('%s: subset count is not the number of distinct selected indices' % what, got=d.n_subsets.value,
                        expected=n_distinct)
    ob = sut.observe(d)
    if len(ob['values']) != n_distinct:
        return out.fail('%s: number of value lists differs from the subset count' % what, got=len(ob['values']))
    for j in range(n_distinct):
        if ob['labels'][j] != sel_expected_labels[j]:
            return out.fail('%s: labels of a selected subset differ' % what, position=j)
        dff = diff_upto_all_ones(ob['values'][j], sel_expected_values[j], sel_fields[j] if sel_fields else None)
        if dff is not None:
            return out.fail('%s: the i-th subset of the result is not the i-th smallest selected subset' % what, position=j,
                            index=dff[0], got=dff[1], expected=dff[2])
    if list(d.unexpanded_descriptors.value) != list(ids):
        out.fail('%s: template changed' % what, got=list(d.unexpanded_descriptors.value))
    if bool(d.is_compressed.value) != bool(case_meta['is_compressed']):
        out.fail('%s: compression flag changed' % what)
    if md_of(d) != md_of(src_msg):
        a, bb = md_of(d), md_of(src_msg)
        k = next((i for i, (x, y) in enumerate(zip(a, bb)) if x != y), None)
        out.fail('%s: identification metadata changed' % what, got=a[k] if k is not None else len(a),
                 expected=bb[k] if k is not None else len(bb))
    # "a valid message": the independent reference decoder must accept it and see the same values
    try:
        rm = rmessage.decode(b, strict_padding=True)
        rvals = [rm.decoded.values_of(j) for j in range(n_distinct)]
    except (IllFormed, Unsupported) as e:
        return out.fail('%s: the reference decoder rejects the encoded subset' % what, why=str(e)[:200])
    for j in range(n_distinct):
        dff = first_value_diff(rvals[j], sel_expected_values[j])
        if dff is not None:
            return out.fail('%s: the reference decoder reads other values from the encoded subset' % what, position=j,
                            index=dff[0], got=dff[1], expected=dff[2])
    return b


def check_case(sc):
    out = Outcome()
    case = sc.case
    n = case.nsub
    sel = sorted(set(sc.indices))
    kind = getattr(sc, 'kind', 'replay')
    out.classes = ['indices_' + kind, 'container_' + sc.container, 'compressed' if case.compressed else 'uncompressed']
    if n >= 9:
        out.classes.append('nine_or_more_subsets')
    if case.ones_by_sum:
        out.classes.append('all_ones_pattern_as_minimum_plus_difference')
        if any(case.decoded.subsets[0].fields[k].is_missing_raw(case.decoded.raw(i, k))
               for k, flag in enumerate(case.ones_by_sum) if flag for i in sel):
            out.classes.append('all_ones_pattern_as_minimum_plus_difference_selected')
    changes = column_status_changes(case, sel)
    if changes:
        out.classes.append('column_becomes_constant')
    reordered = sc.indices != sel
    if reordered:
        out.classes.append('repeat_or_reorder')
    out.nontrivial = changes or reordered
    for dk in ('plain', 'compiled'):
        o = sut.call(decoder(dk).process, case.bytes)
        if not o.ok:
            return out.fail('source message does not decode: %s@%s' % (o.exc_type, o.frame), error=o.msg)
        src = o.value
        before = sut.observe(src)
        before_md = md_of(src)
        before_bytes = src.serialized_bytes
        exp_vals = [case.values()[i] for i in sel]
        exp_labs = [case.labels()[i] for i in sel]
        r = check_selection(out, 'selection (%s coder)' % dk, src, exp_vals, exp_labs, sc.collection(), len(sel), case.meta, case.ids, dk,
                            sel_fields=[case.decoded.fields_of(i) for i in sel])
        # the source message is not modified
        if sut.observe(src) != before or md_of(src) != before_md or src.serialized_bytes != before_bytes:
            out.fail('subset() modified the source message (%s coder)' % dk)
        # the same selection again gives the same bytes
        if isinstance(r, bytes):
            o2 = sut.call(lambda: encoder(dk).process(src.subset(sc.collection())).serialized_bytes)
            if not o2.ok or o2.value != r:
                out.fail('the same selection taken twice gives different bytes (%s coder)' % dk)
            # order and multiplicity of the indices do not matter
            o3 = sut.call(lambda: encoder(dk).process(src.subset(sel)).serialized_bytes)
            if not o3.ok or o3.value != r:
                out.fail('order / repetition of the indices changes the result (%s coder)' % dk, indices=sc.indices)
        # several extractions from one message object are independent of each other: take two, encode them afterwards
        if isinstance(r, bytes) and sc.indices2 is not None:
            out.classes.append('two_extractions_then_encode')
            sel2 = sorted(set(sc.indices2))
            first = sut.call(src.subset, sc.collection())
            second = sut.call(src.subset, sc.collection(sc.indices2))
            if not (first.ok and second.ok):
                out.fail('a second extraction from the same message raised (%s coder)' % dk,
                         error=(first.msg if not first.ok else second.msg))
            else:
                e1 = sut.call(lambda: encoder(dk).process(first.value).serialized_bytes)
                if not e1.ok or e1.value != r:
                    out.fail('an extraction encoded after another extraction was taken differs from the same extraction '
                             'encoded at once (%s coder)' % dk, first=sc.indices, second=sc.indices2,
                             error=None if e1.ok else e1.msg)
                fresh = sut.call(decoder(dk).process, case.bytes)
                e2 = sut.call(lambda: encoder(dk).process(second.value).serialized_bytes)
                e2f = sut.call(lambda: encoder(dk).process(fresh.value.subset(sel2)).serialized_bytes)
                if not e2.ok or not e2f.ok or e2.value != e2f.value:
                    out.fail('a second extraction differs from the same extraction taken from a freshly decoded message '
                             '(%s coder)' % dk, first=sc.indices, second=sc.indices2, error=None if e2.ok else e2.msg)
                if sut.observe(src) != before or md_of(src) != before_md or src.serialized_bytes != before_bytes:
                    out.fail('subset() modified the source message (%s coder)' % dk)
        if sc.bad is not None:
            out.classes.append('out_of_range_probe')
            ob = sut.call(src.subset, sc.collection(sc.bad))
            if ob.ok:
                oe = sut.call(encoder(dk).process, ob.value)
                out.fail('an index outside 0..n-1 is not refused (%s coder)' % dk, indices=sc.bad, n_subsets=n,
                         encodes=oe.ok)
    return out


# ---- foreign compressed character columns ---------------------------------------------------------------
def foreign_string_messages():
    """[(name, bytes, expected strings per subset)]: compressed messages as another producer may write them -- a character
    column whose increments are narrower than the element (all-zero local reference value, NBINC < data width; the sample
    file pgps_110.bufr is of this kind) and an unused character element sent as all-zero octets with NBINC = 0.  The library
    hands the short strings out; an extract holds them blank-padded (C03).  Laid out by hand with the reference bit writer."""
    from refbufr.bits import BitWriter
    from refbufr import frame as rframe
    out = []
    for n, names in ((3, [b'ARD2-LPTR', b'ZIM2-LPTR', b'OBE4-LPTR']), (4, [b'A', b'BB', b'CCC', b'DDDD']),
                     (9, [b'S%d' % k for k in range(9)])):
        for edition in (3, 4):
            w = BitWriter()
            width = max(len(x) for x in names)
            # 001015 station name, 20 characters: base all zero, NBINC = width, increments
            w.raw_bytes(b'\0' * 20)
            w.uint(width, 6)
            for x in names:
                w.raw_bytes(x.ljust(width, b' '))
            # 001019 long station name, 32 characters: not used, all zero, NBINC = 0
            w.raw_bytes(b'\0' * 32)
            w.uint(0, 6)
            # 001001 block number: 7 bits, minimum 10, 4-bit differences
            w.uint(10, 7)
            w.uint(4, 6)
            for k in range(n):
                w.uint(k % 15, 4)
            meta = dict(rframe.default_meta(edition))
            meta.update({'master_table_version': 33, 'n_subsets': n, 'is_compressed': True})
            b = rframe.build(meta, [1015, 1019, 1001], w.bitstring())[0]
            out.append(('%d_subsets_edition%d' % (n, edition), b, [[names[k].ljust(width, b' '), b'', 10 + k % 15] for k in range(n)]))
    return out


def check_foreign_strings(rep):
    for name, b, rows in foreign_string_messages():
        n = len(rows)
        out = Outcome()
        for dk in ('plain', 'compiled'):
            o = sut.call(decoder(dk).process, b)
            if not o.ok:
                out.fail('foreign character columns: source message does not decode (%s coder): %s@%s' % (dk, o.exc_type, o.frame), error=o.msg)
                continue
            src = o.value
            before = sut.observe(src)
            if before['values'] != [list(r) for r in rows]:
                out.fail('foreign character columns: decoded values differ from the ones laid out (%s coder)' % dk, got=before['values'][:2])
                continue
            for idx in ([0], [n - 1, 0], list(range(n)), [1, 1, 2]):
                sel = sorted(set(idx))
                oe = sut.call(lambda: encoder(dk).process(src.subset(idx)).serialized_bytes)
                if not oe.ok:
                    out.fail('foreign character columns: extracting / encoding raised %s@%s (%s coder)' % (oe.exc_type, oe.frame, dk),
                             error=oe.msg, indices=idx)
                    continue
                if sut.observe(src) != before or src.serialized_bytes != b:
                    out.fail('extracting and encoding a subset modified the source message (%s coder)' % dk, indices=idx,
                             before=before['values'][sel[0]][:2], after=sut.observe(src)['values'][sel[0]][:2])
                    before = sut.observe(src)
                od = sut.call(lambda: sut.observe(decoder(dk).process(oe.value))['values'])
                exp = [[rows[i][0].ljust(20, b' '), rows[i][1].ljust(32, b' '), rows[i][2]] for i in sel]
                if not od.ok or od.value != exp:
                    out.fail('foreign character columns: the extract does not hold the selected subsets (strings blank-padded to the '
                             'field width) (%s coder)' % dk, indices=idx, got=od.value[:1] if od.ok else od.msg, expected=exp[:1])
        rep.add_case('foreign_strings:' + name, True, ['foreign_compressed_character_columns'], None)
        for clause, detail in out.failures:
            rep.add_failure(clause, detail, {'foreign_strings': name, 'bytes_hex': b.hex()}, stage='foreign character columns')


# ---- corpus ---------------------------------------------------------------------------------------
def check_corpus(item):
    f, j, b = item
    from checks.c01 import CorpusCase
    cc = CorpusCase(f, j, b)
    out = Outcome()
    try:
        rm = rmessage.decode(b, strict_padding=False)
    except Unsupported as e:
        return cc, None, 'unsupported: %s' % e
    except IllFormed as e:
        return cc, None, 'reference rejects: %s' % str(e)[:50]
    if rm.decoded.ambiguous():
        return cc, None, 'ambiguous construct'
    n = rm.parsed.meta['n_subsets']
    if n < 2:
        return cc, None, 'single subset'
    h = int(hashlib.sha1(b).hexdigest()[:8], 16)
    sels = [[0], [n - 1, 0], sorted({h % n, (h // 7) % n, (h // 49) % n}), [n - 1, n - 1, 0]]
    out.nontrivial = True
    out.classes = ['corpus', 'corpus_compressed' if rm.parsed.meta['is_compressed'] else 'corpus_uncompressed']
    o = sut.call(decoder().process, b)
    if not o.ok:
        return cc, out.fail('corpus message does not decode: %s' % o.exc_type, error=o.msg), None
    src = o.value
    src_before = sut.observe(src)
    for idx in sels:
        sel = sorted(set(idx))
        vals = []
        for i in sel:
            row = []
            fields = rm.decoded.fields_of(i)
            for k, v in enumerate(rm.decoded.values_of(i)):
                row.append(v)
            vals.append(row)
        labs = [rm.decoded.labels_of(i) for i in sel]
        o2 = sut.call(src.subset, idx)
        if not o2.ok:
            out.fail('corpus: subset() raised %s' % o2.exc_type, error=o2.msg, indices=idx)
            continue
        oe = sut.call(encoder().process, o2.value)
        if not oe.ok:
            if isinstance(oe.exc, (IOError, OSError)):
                return cc, None, 'encoder refuses: local table not bundled'
            out.fail('corpus: encoding the subset raised %s@%s' % (oe.exc_type, oe.frame), error=oe.msg, indices=idx)
            continue
        if sut.observe(src) != src_before or src.serialized_bytes != b:
            out.fail('corpus: extracting and encoding a subset modified the source message', indices=idx)
            src_before = sut.observe(src)
        od = sut.call(decoder().process, oe.value.serialized_bytes)
        if not od.ok:
            out.fail('corpus: encoded subset does not decode: %s' % od.exc_type, error=od.msg, indices=idx)
            continue
        d = od.value
        ob = sut.observe(d)
        if d.n_subsets.value != len(sel) or len(ob['values']) != len(sel):
            out.fail('corpus: subset count wrong', indices=idx, got=d.n_subsets.value)
            continue
        for jx, i in enumerate(sel):
            got = ob['values'][jx]
            exp = vals[jx]
            fields = rm.decoded.fields_of(i)
            bad = None
            if len(got) != len(exp):
                bad = ('len', len(got), len(exp))
            else:
                for k, (g, e) in enumerate(zip(got, exp)):
                    if same_value(g, e):
                        continue
                    # FM-94: a value whose bits are all ones is missing
                    fk = fields[k]
                    if g is None and fk.kind != 'const' and fk.is_missing_raw(rm.decoded.raw(i, k)):
                        continue
                    if g is None and fk.kind in ('num', 'code', 'assoc', 'skip') and fk.nbits > 1 and \
                            rm.decoded.raw(i, k) == (1 << fk.nbits) - 1:
                        continue
                    bad = (k, g, e)
                    break
            if bad:
                out.fail('corpus: the i-th subset of the result is not the i-th smallest selected subset', indices=idx,
                         position=jx, index=bad[0], got=bad[1], expected=bad[2])
                break
        if list(d.unexpanded_descriptors.value) != list(rm.parsed.descriptors) or md_of(d) != md_of(src):
            out.fail('corpus: template or identification metadata changed', indices=idx)
    return cc, out, None


def check_cli(sc):
    out = Outcome()
    out.nontrivial = True
    out.classes = ['cli']
    case = sc.case
    sel = sorted(set(sc.indices))
    with cli.scratch('c10') as d:
        src = os.path.join(d, 'in.bufr')
        dst = os.path.join(d, 'out.bufr')
        with open(src, 'wb') as f:
            f.write(case.bytes)
        o, so, se = cli.run_main(['subset', ','.join(str(i) for i in sc.indices), src, dst])
        if not o.ok:
            return out.fail('subset command raised %s' % o.exc_type, error=o.msg)
        if not os.path.exists(dst):
            return out.fail('subset command wrote no file', stderr=se[-200:])
        b = open(dst, 'rb').read()
        od = sut.call(decoder().process, b)
        if not od.ok:
            return out.fail('subset command: output does not decode: %s' % od.exc_type, error=od.msg)
        ob = sut.observe(od.value)
        if len(ob['values']) != len(sel):
            return out.fail('subset command: wrong number of subsets', got=len(ob['values']), expected=len(sel))
        for j, i in enumerate(sel):
            # (the same comparison as for the API: FM-94's identification of a field's all-ones pattern with missing)
            dff = diff_upto_all_ones(ob['values'][j], case.values()[i], case.decoded.fields_of(i))
            if dff is not None:
                return out.fail('subset command: wrong values', position=j, index=dff[0], got=dff[1], expected=dff[2])
        # an index outside 0..n-1 is refused by the command as well: no message is written.  Probes: the generated one,
        # and n distinct indices of which one is out of range (as many as the message has subsets)
        n = case.nsub
        probes = [list(range(1, n + 1)), list(range(n - 1)) + [n + 3]]
        if sc.bad is not None:
            probes.append(list(sc.bad))
        for bad in probes:
            out.classes.append('cli_out_of_range_probe')
            dst2 = os.path.join(d, 'bad.bufr')
            if os.path.exists(dst2):
                os.remove(dst2)
            o, so, se = cli.run_main(['subset', ','.join(str(i) for i in bad), src, dst2])
            written = open(dst2, 'rb').read() if os.path.exists(dst2) else b''
            if b'BUFR' in written:
                return out.fail('subset command: an index outside 0..n-1 is not refused (a message is written)', indices=bad,
                                n_subsets=n, n_bytes=len(written))
            if 'Traceback' in se:
                return out.fail('subset command: an index outside 0..n-1 ends in a traceback', indices=bad, stderr=se[-300:])
    return out


def check_cli_private_tables(rep):
    """the subset command with -t: source messages laid out with a private tables root (vlib.privtables: 012001 and 001001 are
    other fields there than in the bundled tables); the extract must be a message of those tables"""
    from vlib import privtables
    from refbufr import tables as rtables, frame as rframe
    with cli.scratch('c10t') as d:
        root = privtables.build(os.path.join(d, 'tables'))
        tabs = rtables.Tables(('0', '0_0', '33'), None, root=root)
        dec = sut.Decoder(tables_root_dir=root)
        for compressed in (False, True):
            for edition in (3, 4):
                out = Outcome()
                meta = dict(rframe.default_meta(edition))
                meta.update({'master_table_version': 33, 'n_subsets': 4, 'is_compressed': compressed})
                ids = [1001, 12001, 301011, 12001]
                rows = [[900 + k, 27315 + 1000 * k, 2000 + k, 1 + k, 30000 - k] for k in range(4)]
                if compressed:
                    src_case = gmsg.case_from_raws(meta, ids, columns=[list(c) for c in zip(*rows)], tables=tabs)
                else:
                    src_case = gmsg.case_from_raws(meta, ids, subsets=rows, tables=tabs)
                src = os.path.join(d, 'in.bufr')
                with open(src, 'wb') as f:
                    f.write(src_case.bytes)
                for idx in ([3, 0], [1], [0, 1, 2, 3]):
                    sel = sorted(set(idx))
                    dst = os.path.join(d, 'out.bufr')
                    if os.path.exists(dst):
                        os.remove(dst)
                    o, so, se = cli.run_main(['-t', root, 'subset', ','.join(map(str, idx)), src, dst])
                    if not o.ok or not os.path.exists(dst):
                        out.fail('subset command with -t raised / wrote nothing', error=o.msg, stderr=se[-200:], indices=idx)
                        continue
                    b = open(dst, 'rb').read()
                    m2 = dict(meta, n_subsets=len(sel))
                    if compressed:
                        want = gmsg.case_from_raws(m2, ids, columns=[[rows[i][k] for i in sel] for k in range(5)], tables=tabs)
                    else:
                        want = gmsg.case_from_raws(m2, ids, subsets=[rows[i] for i in sel], tables=tabs)
                    od = sut.call(lambda: sut.observe(dec.process(b))['values'])
                    if not od.ok:
                        out.fail('subset command with -t: the extract does not decode with the same tables root: %s@%s' % (od.exc_type, od.frame),
                                 error=od.msg, indices=idx)
                    elif od.value != want.values():
                        out.fail('subset command with -t: the extract does not hold the selected subsets (decoded with the same tables root)',
                                 indices=idx, got=od.value[:1], expected=want.values()[:1])
                    elif not compressed and b != want.bytes:
                        out.fail('subset command with -t: the extract is not the message an independent writer lays out with those tables',
                                 indices=idx, n_got=len(b), n_expected=len(want.bytes))
                rep.add_case('cli-t:%s:%d' % (compressed, edition), True, ['cli_subset_with_tables_root_directory'], None)
                for clause, detail in out.failures:
                    rep.add_failure(clause, detail, {'cli_private_tables': True}, stage='command line with -t')


def gen_opts(tier):
    opts = gmsg.GenOpts(tier)
    opts.min_subsets = 1
    opts.max_subsets = 5 if tier == 'quick' else 12
    opts.template = gtemplates.Opts(max_ids=14 if tier == 'quick' else 30)
    opts.extra_widths = False
    opts.ones_by_sum = 'all'      # numeric columns too: missing entries written as minimum + difference = all ones
    return opts


# ---- coverage-guided stage: the same generator and oracle, decisions taken from fuzzer bytes (vlib.fuzz) ----
_FUZZ_OPTS = gen_opts('quick')


def _fuzz_gen(ch):
    return gen_case(ch, _FUZZ_OPTS)


fuzz_case = fuzz.structured_target(_fuzz_gen, check_case)


def run(tier, seed):
    rep = Report(PID, tier, seed, 'exploration')
    rep.rule = ('C01 messages (every operator / replication shape, compressed or not, 1..n subsets) x index collections {single, full, '
                'ends, reversed, all but one, random, with repeats} as list / tuple / set / frozenset, through a plain and a compiling '
                'coder; out-of-range probes {n, -1, n+5, mixed}; sample-corpus messages with >= 2 subsets x 4 selections.  The encoded '
                'result is also decoded by the independent reference decoder.  Non-trivial = a compressed column turns constant under '
                'the selection, or the collection has a repeat / is not ascending.')
    rep.assumptions = ['expected values = the reference values of the selected subsets; corpus: all-ones raw fields may come back as missing']
    workers = runner.tier_workers(tier)
    std.replay_files(rep, PID, check_case, SubCase.from_json)
    opts = gen_opts(tier)
    n = 2500 if tier == 'quick' else 60000
    runner.run_generated(rep, lambda ch: gen_case(ch, opts), check_case, n, workers)
    stride = 12 if tier == 'quick' else 1
    items = corpusio.messages(stride=stride, offset=seed)
    res = runner.run_enumerated(items, check_corpus, workers, chunk=3)
    std.add_results(rep, res, 'corpus')
    runner.run_generated(rep, lambda ch: gen_case(ch, opts), check_cli, 30 if tier == 'quick' else 1500,
                         4 if tier == 'quick' else workers, stage='command line')
    rep.required_classes = ['indices_repeats', 'indices_random', 'container_set', 'container_tuple', 'column_becomes_constant',
                            'out_of_range_probe', 'compressed', 'uncompressed', 'corpus', 'cli']
    def _wrap(case):
        n = case.nsub
        if n < 2:
            return []
        sels = [[0, n - 1], list(range(n)), [n - 1], list(range(0, n, 2))]
        if n > 256:
            sels.append(list(range(256)))
            sels.append(list(range(1, 257)) + [0, 0])
        return [SubCase(case, idx, 'list', bad=[n]) for idx in sels]
    std.run_boundary(rep, tier, check_case, only=['subsets_', 'bitmap_300_bits_compressed'], wrap=_wrap)
    check_foreign_strings(rep)
    check_cli_private_tables(rep)
    fuzz.run_structured(rep, 'checks.c10', _fuzz_gen, tier)
    return rep.finish()


def replay(path):
    with open(path) as f:
        d = json.load(f)
    if 'foreign_strings' in d['case'] or 'cli_private_tables' in d['case']:
        rep = Report(PID, 'quick', 0)
        (check_foreign_strings if 'foreign_strings' in d['case'] else check_cli_private_tables)(rep)
        for clause, f in rep.failures.items():
            print('VIOLATION property=%s replay=%s' % (PID, path))
            print('  clause: %s detail: %s' % (clause, json.dumps(runner.jsonable(f['detail']))[:600]))
        return 1 if rep.failures else 0
    if 'corpus_file' in d['case']:
        c = d['case']
        cc, out, excl = check_corpus((c['corpus_file'], c['message_index'], bytes.fromhex(c['bytes_hex'])))
        fails = out.failures if out else []
        for clause, detail in fails:
            print('VIOLATION property=%s replay=%s' % (PID, path))
            print('  clause: %s detail: %s' % (clause, json.dumps(runner.jsonable(detail))[:600]))
        return 1 if fails else 0
    return std.replay_main(PID, path, check_cli if d.get('stage') == 'command line' else check_case, SubCase.from_json)
