"""C18 -- script preprocessing substitutes exactly the embedded queries.

Stage 1: scripts assembled from code fragments, single / double quoted escape-free literals,
comments and embedded expressions in any order and multiplicity; the expected output is known
by construction.  Stage 2: executable scripts on generated messages, nesting levels {0,1,2,4}
by argument, by pragma, by both.  Thorough: atheris on the preprocessor against
refbufr.scriptref."""
import hashlib
import json

from vlib import runner, sut, std, fuzz
from vlib.runner import Outcome, Report, Reject
from gen import pool as gpool, messages as gmsg, templates as gtemplates
from refbufr import scriptref, pathref
from pybufrkit.script import process_embedded_query_expr, ScriptRunner
from pybufrkit.dataquery import NodePathParser, DataQuerent
from pybufrkit.mdquery import MetadataExprParser, MetadataQuerent
from checks import c16

PID = 'C18'
EXPRS = ['%length', '001001', '%edition', '/301011/004001', '@[0] > 008042', '103000.031001', '021062.A21062', '%3.n_subsets',
         '/001008[1]', '@[-1]/001011[-10:]', '%unexpanded_descriptors', 'x', '001001[::2]', '$', '{', '#', "'", '"']
CODE_CHARS = 'abcxyz_ =+()[],.:;0123456789\n\t<>!%&*-/\\|^~@?{}$'


# ---- stage 1: free-form fragments --------------------------------------------------------------------
class ScriptCase(object):
    def __init__(self, fragments):
        self.fragments = fragments                 # [(kind, text)] ; kind: code, literal, comment, embed (text = raw inner text)
        self.script = ''.join(('${' + t + '}') if k == 'embed' else t for k, t in fragments)

    def key(self):
        return hashlib.sha1(self.script.encode('utf-8', 'surrogatepass')).hexdigest()[:20]

    def expected(self):
        out = []
        subs = {}
        for k, t in self.fragments:
            if k == 'embed':
                e = t.strip()
                if e not in subs:
                    subs[e] = 'PBK_%d' % len(subs)
                out.append(subs[e])
            else:
                out.append(t)
        return ''.join(out), subs

    def summary(self):
        return {'script': self.script, 'fragment_kinds': [k for k, _ in self.fragments]}

    def to_json(self):
        return {'kind': 'script', 'fragments': [list(f) for f in self.fragments]}

    @staticmethod
    def from_json(d):
        return ScriptCase([tuple(f) for f in d['fragments']])


def gen_code(ch):
    n = ch.int(1, 8)
    t = ''.join(ch.choice(CODE_CHARS) for _ in range(n))
    t = t.replace('${', '$ {')
    if ch.bool(1, 6):
        t += '$'          # a lone dollar right in front of whatever comes next (a literal, a comment, an embedded query)
    return t


def gen_literal(ch):
    q = ch.choice(['"', "'"])
    other = "'" if q == '"' else '"'
    parts = []
    for _ in range(ch.int(0, 4)):
        k = ch.weighted([(3, 'text'), (2, 'embed'), (1, 'hash'), (1, 'other'), (1, 'dollar'), (1, 'newline')])
        if k == 'text':
            parts.append(''.join(ch.choice('abc xyz_=+0123') for _ in range(ch.int(1, 5))))
        elif k == 'newline':
            parts.append('\n')        # a literal that runs over a line end (a text block): still one literal
        elif k == 'embed':
            parts.append('${' + ch.choice(EXPRS[:11]) + '}')
        elif k == 'hash':
            parts.append('# ')
        elif k == 'other':
            parts.append(other)
        else:
            parts.append(ch.choice(['$', '${', '}', '$$']))
    return q + ''.join(parts).replace(q, '') + q


def gen_comment(ch):
    parts = ['#']
    for _ in range(ch.int(0, 4)):
        k = ch.weighted([(3, 'text'), (2, 'embed'), (1, 'quote'), (1, 'hash')])
        if k == 'text':
            parts.append(''.join(ch.choice('abc xyz_=+0123') for _ in range(ch.int(1, 5))))
        elif k == 'embed':
            parts.append('${' + ch.choice(EXPRS[:11]) + ch.choice(['}', '', ' } x']))
        elif k == 'quote':
            parts.append(ch.choice(['"', "'", "it's", '"a']))
        else:
            parts.append('#$')
    return ''.join(parts) + '\n'


def gen_embed(ch):
    e = ch.choice(EXPRS)
    lead = ch.choice(['', ' ', '  ', '\t', '\n'])
    trail = ch.choice(['', ' ', '  ', '\t '])
    return lead + e + trail


def gen_script(ch):
    frags = []
    n = ch.int(1, 12)
    for _ in range(n):
        k = ch.weighted([(4, 'code'), (3, 'embed'), (2, 'literal'), (2, 'comment')])
        if k == 'code':
            t = gen_code(ch)
            if frags and frags[-1][0] == 'code' and frags[-1][1].endswith('$') and t.startswith('{'):
                t = ' ' + t
            frags.append(('code', t))
        elif k == 'embed':
            frags.append(('embed', gen_embed(ch)))
        elif k == 'literal':
            frags.append(('literal', gen_literal(ch)))
        else:
            frags.append(('comment', gen_comment(ch)))
    # a code fragment must not open a literal or a comment: the alphabet has no quote / '#'
    return ScriptCase(frags)


def check_script(case):
    out = Outcome()
    kinds = [k for k, _ in case.fragments]
    exprs = [t.strip() for k, t in case.fragments if k == 'embed']
    inside = any(k in ('literal', 'comment') and '${' in t for k, t in case.fragments)
    repeat = len(exprs) != len(set(exprs))
    out.nontrivial = (inside and 'embed' in kinds) or repeat
    out.classes = ['script'] + (['embed_in_literal_or_comment'] if inside else []) + \
                  (['literal_over_a_line_end'] if any(k == 'literal' and '\n' in t for k, t in case.fragments) else []) + (['repeated_expression'] if repeat else []) + \
                  (['padded_expression'] if any(t != t.strip() for k, t in case.fragments if k == 'embed') else [])
    want, wsubs = case.expected()
    ref, rsubs, status = scriptref.substitute(case.script)
    if status != 'ok' or ref != want or rsubs != wsubs:
        raise runner.HarnessError('reference substitution disagrees with the construction for %r' % case.script)
    o = sut.call(process_embedded_query_expr, case.script)
    if not o.ok:
        return out.fail('preprocessing raised %s@%s' % (o.exc_type, o.frame), script=case.script, error=o.msg)
    got, gsubs = o.value
    if got != want:
        k = next((i for i, (a, b) in enumerate(zip(got, want)) if a != b), min(len(got), len(want)))
        out.fail('preprocessed text differs: an embedded query not replaced, or another character changed', script=case.script,
                 at=k, got=got[max(0, k - 10):k + 20], expected=want[max(0, k - 10):k + 20])
    if dict(gsubs) != wsubs:
        out.fail('substitution table differs (same name for the same trimmed expression, distinct names otherwise)',
                 script=case.script, got=dict(gsubs), expected=wsubs)
    return out


# ---- stage 2: execution ----------------------------------------------------------------------------------
_DQ = DataQuerent(NodePathParser())
_MQ = MetadataQuerent(MetadataExprParser())
MD_EXPRS = ['%length', '%edition', '%n_subsets', '%is_compressed', '%unexpanded_descriptors', '%1.month', '%originating_subcentre',
            '%3.section_length', '%no_such']


class RunCase(object):
    def __init__(self, case, exprs, pragma, arg, dup):
        self.case, self.exprs, self.pragma, self.arg, self.dup = case, exprs, pragma, arg, dup

    def script(self):
        lines = []
        if self.pragma is not None:
            lines.append('#$ data_values_nest_level = %d' % self.pragma)
        lines.append('# results of ${%length} and ${001001} are not used here')
        lines.append('note = "${%edition} is not a query here # nor a comment"')
        # a run starts from the bound names only: nothing an earlier run of the same runner assigned is still there
        lines.append("left_over = 'assigned_by_a_run' in globals() or 'assigned_by_a_run' in dir()")
        for i, e in enumerate(self.exprs):
            emb = '${%s%s%s}' % (' ' if i % 2 else '', e, '  ' if i % 3 == 0 else '')
            # the names are bound for the whole script, nested scopes included
            form = (i + (self.dup or 0)) % 4
            if form == 0:
                lines.append('r%d = %s' % (i, emb))
            elif form == 1:
                lines.append('r%d = (lambda: %s)()' % (i, emb))
            elif form == 2:
                lines += ['def f%d():' % i, '    return %s' % emb, 'r%d = f%d()' % (i, i)]
            else:
                lines.append('r%d = [%s for _ in range(1)][0]' % (i, emb))
        lines += ['def _names():', '    return PBK_FILENAME, PBK_BUFR_MESSAGE', 'names_in_a_function = _names()']
        if self.dup is not None and self.exprs:
            lines.append('again = ${ %s }' % self.exprs[self.dup % len(self.exprs)])
        lines.append("tail = '${%length}'")
        lines.append('assigned_by_a_run = 1')
        return '\n'.join(lines) + '\n'

    def key(self):
        return hashlib.sha1((self.case.key() + self.script() + repr(self.arg)).encode()).hexdigest()[:20]

    def summary(self):
        s = self.case.summary()
        s.update({'script': self.script(), 'nest_level_argument': self.arg, 'nest_level_pragma': self.pragma})
        return s

    def to_json(self):
        return {'kind': 'run', 'case': self.case.to_json(), 'exprs': self.exprs, 'pragma': self.pragma, 'arg': self.arg, 'dup': self.dup}

    @staticmethod
    def from_json(d):
        return RunCase(gmsg.Case.from_json(d['case']), list(d['exprs']), d['pragma'], d['arg'], d['dup'])


_DEC = {}


def decoder():
    if 'd' not in _DEC:
        _DEC['d'] = sut.Decoder()
    return _DEC['d']


def gen_run(ch, opts):
    mixed = None
    if ch.bool(1, 4):
        # one element outside and inside replications: the matches of its bare ID lie at different nesting depths
        mv = ch.choice(opts.versions or gmsg.QUICK_VERSIONS)
        pl = gpool.pool_for(mv)
        e, f = ch.choice(pl.num_all), ch.choice(pl.num_all)
        ids = ch.choice([[e, 101002, e],
                         [e, f, 102000, 31001, f, 101000, 31001, e],
                         [102002, e, 101002, e, e, f],
                         [e, 103000, 31001, f, e, 101000, 31001, e, f]])
        case = gmsg.gen_case(ch, opts, fixed=(mv, None, ids))
        mixed = ['%06d' % e, '> %06d' % e, '%06d' % f]
    else:
        case = gmsg.gen_case(ch, opts)
    o = sut.call(decoder().process, case.bytes)
    if not o.ok:
        raise Reject('message does not decode')
    nj = sut.nested_template_data(o.value)
    exprs = []
    md_only = ch.bool(1, 4) and mixed is None
    if mixed:
        exprs.append(ch.choice(mixed))
    for _ in range(ch.int(1, 5)):
        if md_only or ch.bool(1, 3):
            exprs.append(ch.choice(MD_EXPRS))
        else:
            sub = ch.int(0, case.nsub - 1)
            if ch.bool(1, 3):
                ids = c16.ordinary_ids(nj)
                if ids:
                    exprs.append(ch.choice(ids))
                    continue
            comps, text = c16.gen_path(ch, nj[sub])
            if comps:
                stext, sspec = c16.gen_selector(ch, case.nsub)
                exprs.append((stext + ' ' + text).strip())
    if not exprs:
        exprs = ['%length']
    pragma = ch.choice([None, None, 0, 1, 2, 4])
    arg = ch.choice([None, None, 0, 1, 2, 4])
    dup = ch.int(0, 5) if ch.bool(1, 2) else None
    return RunCase(case, exprs, pragma, arg, dup)


def first_subset_without_match_runs():
    """hand-laid-out: an element inside a delayed replication that runs zero times in the first subset(s) and several times
    later -- the first value (level 0) comes from a later subset; also with a subset selector that starts at an empty one"""
    from refbufr import frame as rframe
    out = []
    for compressed_unused, rows in ((False, [[5, 0], [6, 2, 11, 12], [7, 1, 13]]), (False, [[5, 0], [6, 0], [7, 3, 21, 22, 23]])):
        meta = dict(rframe.default_meta(4))
        meta.update({'master_table_version': 33, 'n_subsets': len(rows), 'is_compressed': False})
        case = gmsg.case_from_raws(meta, [1002, 101000, 31001, 1001], subsets=rows)
        for exprs in (['001001'], ['> 001001', '001002'], ['@[0:2] > 001001', '@[::-1] > 001001']):
            for pragma, arg in ((0, None), (None, 0), (None, None), (2, None), (4, 1)):
                out.append(RunCase(case, exprs, pragma, arg, None))
    return out


def flatten_level(l4, level):
    l2 = [pathref.flatten(x) for x in l4]
    if level == 4:
        return l4
    if level == 2:
        return l2
    l1 = []
    for x in l2:
        l1 += x
    if level == 1:
        return l1
    return l1[0] if l1 else None


def check_run(rc):
    out = Outcome()
    o = sut.call(decoder().process, rc.case.bytes, file_path='FILE-%s.bufr' % rc.case.key()[:6])
    if not o.ok:
        return out.fail('message does not decode: %s' % o.exc_type, error=o.msg)
    msg = o.value
    script = rc.script()
    # expected values of every expression, from the query layer itself (C16 / C17 decide its correctness)
    l4 = {}
    for e in rc.exprs:
        if e.lstrip().startswith('%'):
            q = sut.call(_MQ.query, msg, e)
        else:
            q = sut.call(lambda: _DQ.query(msg, e).all_values())
        if not q.ok:
            raise Reject('expression not evaluable on this message (%s)' % q.exc_type)
        l4[e] = q.value
    # a sibling message for the "one runner, several messages" clause: the last subset of this one as a message of its own
    # (other values, other subset count), or the same bytes under another file name
    sibling, l4_sib = None, {}
    n_sub = rc.case.nsub
    sb = sut.call(lambda: sut.Encoder().process(msg.subset([n_sub - 1])).serialized_bytes) if n_sub > 1 else None
    o2 = sut.call(decoder().process, sb.value if (sb is not None and sb.ok) else rc.case.bytes, file_path='OTHER-%s.bufr' % rc.case.key()[:6])
    if o2.ok:
        sibling = o2.value
        for e in rc.exprs:
            if e.lstrip().startswith('%'):
                q = sut.call(_MQ.query, sibling, e)
            else:
                q = sut.call(lambda: _DQ.query(sibling, e).all_values())
            if not q.ok:
                sibling = None
                break
            l4_sib[e] = q.value
    eff = rc.arg if rc.arg is not None else (rc.pragma if rc.pragma is not None else 1)
    md_only = all(e.lstrip().startswith('%') for e in rc.exprs + ['%length'])   # the literal/comment embeds do not count
    md_only = all(e.lstrip().startswith('%') for e in rc.exprs)
    mixed_depth = False
    for e in rc.exprs:
        if not e.lstrip().startswith('%'):
            for per_subset in l4[e]:
                if isinstance(per_subset, list) and any(isinstance(x, list) for x in per_subset) and any(not isinstance(x, list) for x in per_subset):
                    mixed_depth = True
    out.classes = ['run', 'level_%d' % eff, 'by_argument' if rc.arg is not None else ('by_pragma' if rc.pragma is not None else 'default_level'),
                   'metadata_only' if md_only else 'needs_data']
    if rc.arg is not None and rc.pragma is not None and rc.arg != rc.pragma:
        out.classes.append('argument_beats_pragma')
    if mixed_depth:
        out.classes.append('matches_at_different_nesting_depths')
    out.nontrivial = not md_only or rc.dup is not None
    results = {}
    for level in sorted({eff, 0, 1, 2, 4}):
        kw = {}
        use_pragma = rc.pragma
        if level == eff:
            if rc.arg is not None:
                kw['data_values_nest_level'] = rc.arg
        else:
            kw['data_values_nest_level'] = level
        o = sut.call(lambda: ScriptRunner(script, **kw))
        if not o.ok:
            return out.fail('ScriptRunner raised %s@%s' % (o.exc_type, o.frame), script=script, error=o.msg)
        sr = o.value
        if level == eff:
            if sr.pragma['data_values_nest_level'] != eff:
                out.fail('effective nesting level is wrong (argument beats pragma beats the default 1)', script=script,
                         argument=rc.arg, pragma=rc.pragma, got=sr.pragma['data_values_nest_level'])
            if bool(sr.metadata_only) != md_only:
                out.fail('metadata_only is not "every expression starts with %"', script=script, got=sr.metadata_only,
                         expressions=rc.exprs)
            want_code, want_subs, st = scriptref.substitute(script)
            if sr.code_string != want_code or dict(sr.substitutions) != want_subs:
                out.fail('preprocessed script of the runner differs', script=script, got=sr.code_string)
        def verify(v, m, l4m, what=''):
            if v.get('PBK_BUFR_MESSAGE') is not m or v.get('PBK_FILENAME') != m.filename:
                out.fail(what + 'the message / file name variables are not bound', script=script)
            nf = v.get('names_in_a_function')
            if not (isinstance(nf, tuple) and nf[0] == m.filename and nf[1] is m):
                out.fail(what + 'the message / file name variables are not visible inside a function of the script', script=script)
            if v.get('note') != '${%edition} is not a query here # nor a comment' or v.get('tail') != '${%length}':
                out.fail(what + 'an embedded query inside a string literal was replaced', script=script, note=v.get('note'), tail=v.get('tail'))
            if v.get('left_over') is not False:
                out.fail(what + 'a name that the script assigned during an earlier run is still bound when the next run starts', script=script)
            for i, e in enumerate(rc.exprs):
                want = l4m[e] if e.lstrip().startswith('%') else flatten_level(l4m[e], level)
                got = v.get('r%d' % i)
                if got != want or type(got) is not type(want):
                    out.fail(what + 'a variable does not hold the query result at nesting level %d' % level, script=script, expr=e,
                             got=got, expected=want, full_nesting=l4m[e])
                    return False
            if rc.dup is not None:
                e = rc.exprs[rc.dup % len(rc.exprs)]
                want = l4m[e] if e.lstrip().startswith('%') else flatten_level(l4m[e], level)
                if v.get('again') != want:
                    out.fail(what + 'a repeated expression (differently padded) is not bound to the same result', script=script, expr=e,
                             got=v.get('again'), expected=want)
            return True
        r = sut.call(sr.run, msg)
        if not r.ok:
            return out.fail('running the script raised %s@%s' % (r.exc_type, r.frame), script=script, error=r.msg, level=level)
        results[level] = r.value
        if not verify(r.value, msg, l4):
            return out
        if level == eff and sibling is not None:
            # one runner, several messages (the script command runs one runner over every message of every file): another
            # message, then the first one again
            out.classes.append('one_runner_several_messages')
            for m, l4m, what in ((sibling, l4_sib, 'same runner, next message: '), (msg, l4, 'same runner, first message again: ')):
                r2 = sut.call(sr.run, m)
                if not r2.ok:
                    return out.fail(what + 'running the script raised %s@%s' % (r2.exc_type, r2.frame), script=script, error=r2.msg)
                if not verify(r2.value, m, l4m, what):
                    return out
    return out


# ---- the script command -----------------------------------------------------------------------------------
def check_cli(rc):
    """the same scripts through `pybufrkit script`: given as argument or with -f, the level by -n, by the pragma line or by
    neither; the script prints its variables"""
    import os
    from vlib import cli
    out = Outcome()
    out.classes = ['cli']
    out.nontrivial = True
    o = sut.call(decoder().process, rc.case.bytes)
    if not o.ok:
        raise Reject('message does not decode')
    msg = o.value
    l4 = {}
    for e in rc.exprs:
        q = sut.call(_MQ.query, msg, e) if e.lstrip().startswith('%') else sut.call(lambda: _DQ.query(msg, e).all_values())
        if not q.ok:
            raise Reject('expression not evaluable on this message (%s)' % q.exc_type)
        l4[e] = q.value
    eff = rc.arg if rc.arg is not None else (rc.pragma if rc.pragma is not None else 1)
    out.classes.append('cli_level_by_%s' % ('argument' if rc.arg is not None else 'pragma' if rc.pragma is not None else 'default'))
    script = rc.script() + 'print(repr([%s]))\n' % ', '.join('r%d' % i for i in range(len(rc.exprs)))
    want = repr([l4[e] if e.lstrip().startswith('%') else flatten_level(l4[e], eff) for e in rc.exprs])
    with cli.scratch('c18') as d:
        path = os.path.join(d, 'm.bufr')
        with open(path, 'wb') as f:
            f.write(rc.case.bytes)
        spath = os.path.join(d, 'script.py')
        with open(spath, 'w') as f:
            f.write(script)
        level = ['-n', str(rc.arg)] if rc.arg is not None else []
        for how, argv in (('as argument', ['script'] + level + [script, path]), ('from a file', ['script', '-f'] + level + [spath, path]),
                          ('two files', ['script'] + level + [script, path, path])):
            r, so, se = cli.run_main(argv)
            lines = [ln for ln in so.splitlines() if ln.startswith('[')]
            if not r.ok:
                out.fail('script command raised %s@%s (%s)' % (r.exc_type, r.frame, how), script=script, error=r.msg)
            elif lines != [want] * (2 if how == 'two files' else 1):
                out.fail('script command: the variables do not hold the query results at the effective nesting level (%s)' % how,
                         script=script, argument=rc.arg, pragma=rc.pragma, got=lines[:2], expected=want)
    return out


# ---- atheris target ----------------------------------------------------------------------------------------
def fuzz_one(data):
    s = data.decode('latin-1')
    ref, rsubs, status = scriptref.substitute(s)
    fails = []
    try:
        got, gsubs = process_embedded_query_expr(s)
    except Exception as e:
        return s, True, ['raised'], [('preprocessing raised %s' % type(e).__name__, {'script': s, 'error': str(e)[:200]},
                                      {'kind': 'text', 'script': s})]
    if status == 'ok':
        if got != ref:
            fails.append(('fuzz: preprocessed text differs from the reference substitution', {'script': s, 'got': got, 'expected': ref},
                          {'kind': 'text', 'script': s}))
        elif dict(gsubs) != rsubs:
            fails.append(('fuzz: substitution table differs from the reference', {'script': s, 'got': dict(gsubs), 'expected': rsubs},
                          {'kind': 'text', 'script': s}))
    return s, '${' in s, ['status_' + status], fails


class TextCase(object):
    def __init__(self, s):
        self.s = s


def check_text(tc):
    out = Outcome()
    out.nontrivial = True
    out.classes = ['text_replay']
    _, _, _, fails = fuzz_one(tc.s.encode('latin-1'))
    for clause, detail, _ in fails:
        out.fail(clause, **detail)
    return out


def load_case(d):
    if d.get('kind') == 'run':
        return RunCase.from_json(d)
    if d.get('kind') == 'text':
        return TextCase(d['script'])
    return ScriptCase.from_json(d)


def check_any(case):
    if isinstance(case, RunCase):
        return check_run(case)
    if isinstance(case, TextCase):
        return check_text(case)
    return check_script(case)


SEEDS = ['length = ${%length}; v = ${001001}', 'length = ${%length}  # length = ${%length}\nsomething = ${001001}',
         'a = "${x}" + \'${y}\' # ${z}\nb = ${ x }', '#$ data_values_nest_level = 0\nprint(${005001}, ${006001})',
         'if 309052 in ${%unexpanded_descriptors}: print(PBK_FILENAME)']


def run(tier, seed):
    rep = Report(PID, tier, seed, 'exploration')
    rep.rule = ('stage 1: scripts of 1..12 fragments {code (may hold $ { }), single / double quoted escape-free literal (may hold ${x}, #, the '
                'other quote), comment to end of line (may hold quotes, ${x}, #$), embedded expression with leading / trailing blanks from a '
                'pool of 18 so that repeats occur}: output and substitution table must equal the construction.  stage 2: executable scripts '
                '(pragma line, comment and literals holding ${...}, 1..5 assignments of metadata / data queries generated from the message, a '
                'differently padded repeat) run on generated messages at the effective level and at every level {0,1,2,4}: bindings, '
                'metadata_only, level precedence, and level k == flattening of level 4.  thorough: atheris on the preprocessor vs '
                'refbufr.scriptref.  Non-trivial = an embed inside a literal / comment next to a real one, or a repeated expression.')
    rep.assumptions = ['escape-free literals; inputs that end inside ${ or inside a literal are unspecified',
                       'values a data query returns are taken from the query layer (decided by C16/C17); C18 checks binding and flattening']
    workers = runner.tier_workers(tier)
    std.replay_files(rep, PID, check_any, load_case)
    n = 6000 if tier == 'quick' else 150000
    runner.run_generated(rep, gen_script, check_script, n, workers, stage='preprocessing')
    opts = c16.gen_opts(tier)
    n = 600 if tier == 'quick' else 10000
    runner.run_generated(rep, lambda ch: gen_run(ch, opts), check_run, n, workers, stage='execution')
    for rc in first_subset_without_match_runs():
        out = check_run(rc)
        rep.add_case('first_subset_without_match:' + rc.key(), True, ['first_selected_subset_without_a_match'] + sorted(out.classes), None)
        for clause, detail in out.failures:
            rep.add_failure('first subset without a match: ' + clause, detail, rc.to_json(), stage='execution')
    runner.run_generated(rep, lambda ch: gen_run(ch, opts), check_cli, 60 if tier == 'quick' else 2500, 4 if tier == 'quick' else workers,
                         stage='command line')
    if tier == 'thorough':
        fuzz.run_atheris(rep, 'checks.c18', 'fuzz_one', runs=1500000, shards=4, seeds=[s.encode() for s in SEEDS], tag='preprocessor',
                         max_len=64, empty_corpus_shards=2)
    rep.required_classes = ['embed_in_literal_or_comment', 'repeated_expression', 'padded_expression', 'level_0', 'level_1', 'level_2',
                            'level_4', 'by_argument', 'by_pragma', 'cli_level_by_pragma', 'cli_level_by_argument', 'one_runner_several_messages', 'argument_beats_pragma', 'metadata_only', 'needs_data']
    return rep.finish()


def replay(path):
    return std.replay_main(PID, path, check_any, load_case)
