"""C12 -- damage is detected, reported as a library error, and isolated to one message.

(i)  every proper prefix of a message must fail to decode, with the library's error type;
(ii) bytes after a message never influence its decode;
(iii) streams in which some messages are damaged (stop signature, undefined descriptor in
     section 3, section length +-1..3; total length intact) scanned full / info-only, with and
     without continue-on-error.  Detectability is decided by the strict reference parser."""
import hashlib
import json
import os

from vlib import runner, sut, std, cli, fuzz
from vlib.compare import first_value_diff
from vlib.runner import Outcome, Report, Reject
from gen import messages as gmsg, streams as gstreams, templates as gtemplates
from refbufr import frame, message as rmessage, tree as rtree, IllFormed, Unsupported

PID = 'C12'
PyBufrKitError = sut.PyBufrKitError
_DEC = {}


def decoder(kind='plain'):
    if kind not in _DEC:
        _DEC[kind] = sut.Decoder() if kind == 'plain' else sut.Decoder(compiled_template_cache_max=3)
    return _DEC[kind]


def values_ok(msg, case):
    """first difference between a decoded message and the reference values, or None"""
    ob = sut.observe(msg)
    exp = case.values()
    if len(ob['values']) != len(exp):
        return ('n_subsets', len(ob['values']), len(exp))
    for i in range(len(exp)):
        d = first_value_diff(ob['values'][i], exp[i])
        if d is not None:
            return (i,) + tuple(d)
        if ob['labels'][i] != case.labels()[i]:
            return (i, 'labels')
    return None


# ---- (i) + (ii): truncation and trailing bytes of one message -----------------------------------------
TAILS = [b'\x00', b'7777', b'BUFR', b'BUF', b'\xff' * 9, b'BUFR\x00\x00\x10\x04', b'7777BUFR7777', b'\r\r\n\x03']


def check_truncation(case):
    out = Outcome()
    b = case.bytes
    out.nontrivial = True
    out.classes = ['truncation_message', 'edition%d' % case.meta['edition'], 'compressed' if case.compressed else 'uncompressed']
    out.n_prefixes = 0
    hist = {}
    for kind in ('plain', 'compiled'):
        dec = decoder(kind)
        base = sut.call(dec.process, b)
        if not base.ok:
            return out.fail('the undamaged message does not decode: %s@%s' % (base.exc_type, base.frame), error=base.msg)
        for n in range(len(b)):
            o = sut.call(dec.process, b[:n])
            out.n_prefixes += 1
            if o.ok:
                out.fail('a proper prefix of a message decodes successfully (%s decoder)' % kind, prefix_length=n, length=len(b))
                break
            hist[o.exc_type] = hist.get(o.exc_type, 0) + 1
            if not isinstance(o.exc, PyBufrKitError):
                out.fail('a truncated message fails with %s@%s, not the library error (%s decoder)' % (o.exc_type, o.frame, kind),
                         prefix_length=n, length=len(b), error=o.msg,
                         section_offsets=case.info['offsets'])
                break
        # the failures must not have left anything behind: the whole message still decodes as before
        again = sut.call(dec.process, b)
        if not again.ok:
            out.fail('after failed decodes the intact message no longer decodes (%s decoder): %s' % (kind, again.exc_type),
                     error=again.msg)
        else:
            d = values_ok(again.value, case)
            if d is not None:
                out.fail('after failed decodes the intact message decodes to other values (%s decoder)' % kind, diff=d)
        # trailing bytes
        for t in TAILS + [b]:
            o = sut.call(dec.process, b + t)
            if not o.ok:
                out.fail('bytes after the message make its decode fail (%s decoder): %s' % (kind, o.exc_type), tail=t[:16], error=o.msg)
                break
            if o.value.serialized_bytes != b:
                out.fail('serialized_bytes is not exactly the span BUFR..7777 when bytes follow (%s decoder)' % kind,
                         tail=t[:16], n_got=len(o.value.serialized_bytes), n=len(b))
                break
            d = values_ok(o.value, case)
            if d is not None:
                out.fail('bytes after the message change its decoded values (%s decoder)' % kind, tail=t[:16], diff=d)
                break
    out.hist = hist
    return out


# ---- (iii) streams with damaged messages ----------------------------------------------------------
FAULTS = ['stop', 'unknown_element', 'unknown_sequence', 'length_minus', 'length_plus', 'element_to_operator']
UNKNOWN_E = [63255, 48001, 1250, 12250, 31003, 31255, 0]
UNKNOWN_S = [363255, 348001, 301250]


def apply_fault(case, fault, ch):
    """(damaged bytes, description) -- total length intact"""
    b = bytearray(case.bytes)
    info = case.info
    if fault == 'stop':
        new = ch.choice([b'7778', b'\x00\x00\x00\x00', b'777\x00', b'8777', b'7777'[::-1][:3] + b'x', b'    ',
                         b'\xff\xfe\x80\x81', b'77\xb77', b'777\n', b'\xe9\xe9\xe9\xe9'])
        b[-4:] = new
        return bytes(b), {'fault': 'stop signature overwritten', 'with': new.hex()}
    if fault in ('unknown_element', 'unknown_sequence'):
        want_f = 0 if fault == 'unknown_element' else 3
        pos = [i for i, d in enumerate(case.ids) if d // 100000 == want_f]
        if not pos:
            raise Reject('no descriptor of that kind to replace')
        i = pos[ch.int(0, len(pos) - 1)]
        factors = [k for k in pos if case.ids[k] // 1000 == 31 and k and case.ids[k - 1] // 100000 == 1]
        if want_f == 0 and factors and ch.bool(1, 3):
            i = factors[ch.int(0, len(factors) - 1)]       # the factor position of a delayed replication
        pool = UNKNOWN_E if want_f == 0 else UNKNOWN_S
        cands = [u for u in pool if u not in case.tables.B and u not in case.tables.D]
        if want_f == 0 and case.ids[i] // 1000 == 31 and ch.bool(1, 2):
            cands = [u for u in cands if u // 1000 == 31] or cands   # an undefined id of the class the position calls for
        u = ch.choice(cands)
        off = info['offsets'][3] + 7 + 2 * i
        f, x, y = u // 100000, (u // 1000) % 100, u % 1000
        b[off] = (f << 6) | x
        b[off + 1] = y
        return bytes(b), {'fault': 'undefined descriptor substituted', 'index': i, 'was': case.ids[i], 'now': u}
    if fault == 'element_to_operator':
        # an element descriptor of section 3 replaced by an operator that opens a scope (201 / 202 / 207 / 208 YYY): the
        # descriptor list is still well formed (the scope stays open to the end of the subset or to the next cancellation)
        # but no longer describes the data.  What is left may or may not be readable -- it must be delivered or refused
        # with the library's error, nothing else.  (Positions where the replacement would make the list ill formed -- the
        # 031021 after 204YYY, a replication factor, the descriptor after 206YYY, a 203YYY definition -- are not used.)
        pos = []
        in203 = False
        for i, d in enumerate(case.ids):
            if d // 1000 == 203:
                in203 = d % 1000 not in (0, 255)
            prev = case.ids[i - 1] if i else 0
            if d // 100000 == 0 and d // 1000 != 31 and not in203 and prev // 1000 not in (204, 206) and \
                    not (prev // 100000 == 1 and prev % 1000 == 0):
                pos.append(i)
        if not pos:
            raise Reject('no descriptor of that kind to replace')
        i = pos[ch.int(0, len(pos) - 1)]
        u = ch.choice([201129, 201130, 201136, 201126, 202129, 202130, 202127, 207001, 207002, 208002, 208010])
        off = info['offsets'][3] + 7 + 2 * i
        f, x, y = u // 100000, (u // 1000) % 100, u % 1000
        b[off] = (f << 6) | x
        b[off + 1] = y
        return bytes(b), {'fault': 'element replaced by an operator', 'index': i, 'was': case.ids[i], 'now': u,
                          'maybe_decodable': True}
    secs = [k for k in (1, 2, 3, 4) if k in info['offsets'] and k in info['lengths']]
    k = ch.choice(secs)
    # mostly off by a few octets; sometimes by more than the stop signature / the following section is long
    delta = ch.weighted([(5, ch.int(1, 3)), (3, ch.int(4, 9)), (2, ch.choice([12, 16, 23, 32, 40, 64, 100, 250]))])
    if fault == 'length_minus':
        delta = -min(delta, info['lengths'][k])
        reps = [i for i, d in enumerate(case.ids) if d // 100000 == 1 and d % 1000 == 0]
        if k == 3 and reps and ch.bool(1, 2):
            # the descriptor list ends between a delayed replication descriptor and its class 31 factor
            i = reps[ch.int(0, len(reps) - 1)]
            delta = (7 + 2 * (i + 1)) - info['lengths'][k]
        if k == 2 and ch.bool(1, 2):
            # below the four octets of the section's own fixed part (its local part is "the rest of the section")
            delta = ch.int(0, 3) - info['lengths'][k]
    off = info['offsets'][k]
    new = info['lengths'][k] + delta
    b[off:off + 3] = new.to_bytes(3, 'big')
    return bytes(b), {'fault': 'section length changed', 'section': k, 'delta': delta}


def detectable(damaged):
    """strict reference parser: True when the message is not well formed any more"""
    try:
        rmessage.decode(damaged, strict_padding=True)
    except Exception:
        return True
    return False


def visible_without_total(stream, start):
    """Is the damage visible to a reader that walks the sections by their declared lengths and
    does not use the total length of section 0?  (With a section length raised by k and the
    right bytes behind the message, e.g. a separator starting with '7', such a reader finds a
    well-formed message of another extent: the statement's "detected" cannot be demanded.)"""
    try:
        rmessage.decode(stream, start, strict_padding=False, ignore_total=True)
    except Exception:
        return True
    return False


class StreamCase(object):
    def __init__(self, cases, seps, faults):
        """faults: per message None or (damaged bytes hex / bytes, description)"""
        self.cases, self.seps, self.faults = cases, seps, faults
        self.pieces = [(f[0] if f else c.bytes) for c, f in zip(cases, faults)]
        self.stream, self.spans = gstreams.assemble(self.pieces, seps)

    def key(self):
        return hashlib.sha1(self.stream).hexdigest()[:20]

    def summary(self):
        return {'n_messages': len(self.cases), 'faults': [f[1] if f else None for f in self.faults],
                'separators': [s.hex() for s in self.seps], 'n_bytes': len(self.stream)}

    def to_json(self):
        return {'kind': 'stream', 'cases': [c.to_json() for c in self.cases], 'seps': [s.hex() for s in self.seps],
                'faults': [[f[0].hex(), f[1]] if f else None for f in self.faults]}

    @staticmethod
    def from_json(d):
        return StreamCase([gmsg.Case.from_json(c) for c in d['cases']], [bytes.fromhex(s) for s in d['seps']],
                          [(bytes.fromhex(f[0]), f[1]) if f else None for f in d['faults']])


def gen_stream(ch, opts):
    n = ch.int(2, 6 if opts.tier == 'thorough' else 5)
    cases = []
    for _ in range(n):
        c = gstreams.gen_message(ch, opts, bufr_in_body=False)
        cases.append(c)
    k = ch.weighted([(4, 1), (3, 2), (1, 3)])
    idxs = set()
    for _ in range(k):
        idxs.add(ch.int(0, n - 1))
    faults = [None] * n
    for i in sorted(idxs):
        if b'BUFR' in cases[i].bytes[4:]:
            raise Reject('damaged message would hold an inner start signature')
        fault = ch.choice(FAULTS)
        dam, desc = apply_fault(cases[i], fault, ch)
        if b'BUFR' in dam[4:]:
            raise Reject('damage created a start signature')
        if not desc.get('maybe_decodable') and not detectable(dam):
            raise Reject('damage not detectable (%s)' % desc['fault'])
        faults[i] = (dam, desc)
    seps = [ch.choice(gstreams.SEPARATORS) for _ in range(n + 1)]
    sc = StreamCase(cases, seps, faults)
    for i in sorted(idxs):
        if faults[i][1].get('maybe_decodable'):
            continue
        if not visible_without_total(sc.stream, sc.spans[i][0]):
            raise Reject('damage invisible to a reader that ignores the total length')
    return sc


def run_scan(dec, stream, **kw):
    """(yielded messages, exception or None)"""
    got = []
    exc = None
    try:
        for m in sut.generate_bufr_message(dec, stream, **kw):
            got.append(m)
    except BaseException as e:
        if isinstance(e, (KeyboardInterrupt, SystemExit, MemoryError)):
            raise
        exc = e
    return got, exc


def is_subsequence(needles, hay):
    it = iter(hay)
    return all(any(x == y for y in it) for x in needles)


def check_stream(case):
    import io
    import contextlib
    out = Outcome()
    n = len(case.cases)
    bad = [i for i in range(n) if case.faults[i]]
    good = [i for i in range(n) if not case.faults[i]]
    out.nontrivial = (bad and bad[0] != n - 1) or len(bad) >= 2
    out.classes = ['stream', 'faults_%d' % len(bad)] + ['fault_' + case.faults[i][1]['fault'].replace(' ', '_') for i in bad]
    if bad and bad[0] == 0:
        out.classes.append('first_message_damaged')
    want = [case.pieces[i] for i in good]
    # a hand-built change whose result the library may well read (an operator in the place of an element gives a template
    # whose reading FM-94 leaves open, DESIGN 10-2): the message may be delivered or skipped, but nothing else may happen
    maybe = [i for i in bad if case.faults[i][1].get('maybe_decodable')]
    may_deliver = [case.pieces[i] for i in range(n) if i in good or i in maybe]
    sink = io.StringIO()
    lenient_first = int(case.key()[:2], 16) % 3 == 0
    if lenient_first:
        out.classes.append('lenient_decode_before_the_scan')
    for kind in ('plain', 'compiled'):
        dec = decoder(kind)
        if lenient_first:
            # the same decoder object was used in its documented lenient mode before (a retry on the damaged message, say):
            # the scans below are as strict as ever
            sut.call(dec.process, case.pieces[bad[0]], ignore_value_expectation=True)
        # full scan, continue on error: exactly the undamaged messages, unchanged
        with contextlib.redirect_stderr(sink):
            got, exc = run_scan(dec, case.stream, continue_on_error=True)
        if exc is not None:
            out.fail('continue-on-error scan raised %s@%s (%s decoder)' % (type(exc).__name__, sut.innermost_sut_frame(exc.__traceback__), kind),
                     error=str(exc)[:200], faults=[case.faults[i][1] for i in bad])
        else:
            gb = [m.serialized_bytes for m in got]
            if maybe and is_subsequence(want, gb) and is_subsequence(gb, may_deliver):
                pass
            elif gb != want:
                out.fail('continue-on-error scan does not deliver exactly the undamaged messages (%s decoder)' % kind,
                         delivered=[case.pieces.index(x) if x in case.pieces else None for x in gb], undamaged=good,
                         faults=[case.faults[i][1] for i in bad])
            else:
                for m, i in zip(got, good):
                    d = values_ok(m, case.cases[i])
                    if d is not None:
                        out.fail('an undamaged message of a damaged stream is delivered with other values (%s decoder)' % kind,
                                 message=i, diff=d, faults=[case.faults[j][1] for j in bad])
                        break
        # the same with a filter expression that holds for every message: nothing more is lost
        if kind == 'plain':
            filt = ['${%edition} > 0', '${%n_subsets} >= 0 and ${%length} > 0', 'True or ${%data_category}'][int(case.key()[2:4], 16) % 3]
            with contextlib.redirect_stderr(sink):
                got, exc = run_scan(dec, case.stream, continue_on_error=True, filter_expr=filt)
            if exc is not None:
                out.fail('continue-on-error scan with a filter raised %s@%s' % (type(exc).__name__, sut.innermost_sut_frame(exc.__traceback__)),
                         error=str(exc)[:200], faults=[case.faults[i][1] for i in bad], filter=filt)
            else:
                gb = [m.serialized_bytes for m in got]
                if not (gb == want or (maybe and is_subsequence(want, gb) and is_subsequence(gb, may_deliver))):
                    out.fail('continue-on-error scan with a filter that holds for every message does not deliver exactly the undamaged messages',
                             delivered=[case.pieces.index(x) if x in case.pieces else None for x in gb], undamaged=good,
                             faults=[case.faults[i][1] for i in bad], filter=filt)
        # full scan, no continue: the messages before the first damaged one, then the library error
        got, exc = run_scan(dec, case.stream, continue_on_error=False)
        gb = [m.serialized_bytes for m in got]
        first = bad[0]
        if exc is None and len(maybe) == len(bad) and gb == case.pieces:
            pass
        elif exc is None:
            out.fail('a scan without continue-on-error finished although a message is damaged (%s decoder)' % kind,
                     faults=[case.faults[i][1] for i in bad], n_delivered=len(gb))
        else:
            if not isinstance(exc, PyBufrKitError):
                out.fail('damage surfaces as %s@%s, not as the library error (%s decoder)' % (
                    type(exc).__name__, sut.innermost_sut_frame(exc.__traceback__), kind), error=str(exc)[:200],
                    fault=case.faults[first][1])
            if gb != case.pieces[:first] and not (maybe and is_subsequence(case.pieces[:first], gb) and is_subsequence(gb, may_deliver)):
                out.fail('without continue-on-error the messages before the damaged one are not all delivered (%s decoder)' % kind,
                         n_delivered=len(gb), expected=first)
        # info-only scans: nothing but messages of the stream, the undamaged ones in order
        for cont in (True, False):
            with contextlib.redirect_stderr(sink):
                got, exc = run_scan(dec, case.stream, info_only=True, continue_on_error=cont)
            gb = [m.serialized_bytes for m in got]
            if exc is not None and (cont or not isinstance(exc, PyBufrKitError)):
                out.fail('info-only scan raised %s (%s decoder, continue_on_error=%s)' % (type(exc).__name__, kind, cont),
                         error=str(exc)[:200], faults=[case.faults[i][1] for i in bad])
                continue
            if any(x not in case.pieces for x in gb):
                out.fail('info-only scan delivers something that is not a message of the stream (%s decoder, continue_on_error=%s)'
                         % (kind, cont), lens=[len(x) for x in gb], faults=[case.faults[i][1] for i in bad])
            elif exc is None and not is_subsequence(want, gb):
                out.fail('info-only scan loses or reorders undamaged messages (%s decoder, continue_on_error=%s)' % (kind, cont),
                         delivered=[case.pieces.index(x) for x in gb], undamaged=good, faults=[case.faults[i][1] for i in bad])
            elif exc is not None and not is_subsequence(gb, case.pieces):
                out.fail('info-only scan delivers messages out of order before failing (%s decoder)' % kind)
    return out


def check_cli(case):
    out = Outcome()
    out.nontrivial = True
    out.classes = ['cli']
    with cli.scratch('c12') as d:
        path = os.path.join(d, 'stream.bufr')
        with open(path, 'wb') as f:
            f.write(case.stream)
        for argv in (['decode', '-m', path], ['decode', '-m', '--continue-on-error', path], ['decode', path],
                     ['info', '-m', path], ['split', path]):
            o, so, se = cli.run_main(argv)
            if not o.ok:
                out.fail('the command line lets %s escape (traceback) for "%s"' % (o.exc_type, ' '.join(argv[:-1])), error=o.msg,
                         faults=[f[1] for f in case.faults if f])
            elif 'Traceback' in se or 'Traceback' in so:
                out.fail('the command line prints a traceback for "%s"' % ' '.join(argv[:-1]))
        # every sub-command that reads a BUFR file, on a damaged message alone in its file
        first_bad = min(i for i, f in enumerate(case.faults) if f)
        one = os.path.join(d, 'damaged.bufr')
        with open(one, 'wb') as f:
            f.write(case.pieces[first_bad])
        for argv in (['subset', '0', one, os.path.join(d, 'out.bufr')], ['compile', one], ['query', '%length', one], ['query', '001001', one],
                     ['script', 'print(${%edition})', one], ['script', 'print(${001001})', one], ['info', one], ['info', '-t', one],
                     ['decode', '-a', one], ['decode', '-j', one], ['split', one]):
            o, so, se = cli.run_main(argv)
            if not o.ok:
                out.fail('the command line lets %s escape (traceback) for "%s"' % (o.exc_type, ' '.join(argv[:2])), error=o.msg,
                         fault=case.faults[first_bad][1])
            elif 'Traceback' in se or 'Traceback' in so:
                out.fail('the command line prints a traceback for "%s"' % ' '.join(argv[:2]))
        o, so, se = cli.run_main(['decode', '-m', path])
        if o.ok and not se.strip() and not all(f[1].get('maybe_decodable') for f in case.faults if f):
            out.fail('decode -m on a damaged stream reports nothing on stderr')
    return out


def load_case(d):
    if d.get('kind') == 'stream':
        return StreamCase.from_json(d)
    return gmsg.Case.from_json(d)


def check_any(case):
    return check_stream(case) if isinstance(case, StreamCase) else check_truncation(case)


def _trunc_worker(args):
    shard, n, seed, tier = args
    from vlib.choose import Chooser
    import hypothesis
    from hypothesis import settings, given, strategies as st, Phase, HealthCheck
    opts = gstreams.small_opts(tier, max_ids=8)
    res = {'n': 0, 'prefixes': 0, 'fails': [], 'hist': {}, 'classes': {}, 'samples': [], 'keys': set(), 'excluded': 0}

    @hypothesis.seed(runner._derive_seed(seed, 500 + shard))
    @settings(max_examples=n, phases=[Phase.generate], database=None, deadline=None, derandomize=False,
              suppress_health_check=list(HealthCheck))
    @given(st.data())
    def test(data):
        ch = Chooser(data=data)
        try:
            case = gstreams.gen_message(ch, opts)
        except Reject:
            res['excluded'] += 1
            return
        out = check_truncation(case)
        res['n'] += 1
        res['keys'].add(case.key())
        res['prefixes'] += getattr(out, 'n_prefixes', 0)
        for k, v in getattr(out, 'hist', {}).items():
            res['hist'][k] = res['hist'].get(k, 0) + v
        for c in out.classes:
            res['classes'][c] = res['classes'].get(c, 0) + 1
        if len(res['samples']) < 1:
            res['samples'].append(case.summary())
        for clause, detail in out.failures:
            if len(res['fails']) < 8:
                res['fails'].append((clause, detail, case.to_json()))
    test()
    return res


# ---- coverage-guided stage: the same generator and oracle, decisions taken from fuzzer bytes (vlib.fuzz) ----
_FUZZ_OPTS = gstreams.small_opts('quick', max_ids=8)


def _fuzz_gen(ch):
    return gen_stream(ch, _FUZZ_OPTS)


fuzz_case = fuzz.structured_target(_fuzz_gen, check_stream)


def run(tier, seed):
    rep = Report(PID, tier, seed, 'exploration')
    rep.rule = ('(i) every proper prefix (exhaustive per message) of generated messages, plain and compiling decoder: must raise, and '
                'raise the library error; afterwards the intact message must decode to the reference values; (ii) 9 kinds of trailing '
                'bytes incl. another message: same values, serialized_bytes == the message; (iii) streams of 2..6 messages, 1..3 of '
                'them damaged by {stop signature overwritten, undefined element / sequence substituted in section 3, section length '
                '-1..-3, +1..+3} with the total length intact, damaged messages free of an inner start signature, damage kept only '
                'when the strict reference parser rejects the message; scanned full / info-only x continue-on-error on/off x plain / '
                'compiling decoder; delivered messages are also compared with the reference values.  Non-trivial = the first fault is '
                'not in the last message, or two or more faults; truncation points are all distinct.')
    rep.assumptions = ['detectability of damage is decided by the strict reference parser (refbufr.message.decode)',
                       'info-only scans may deliver messages whose damage is invisible to a metadata scan',
                       'separators and damaged messages hold no start signature (precondition of the statement)']
    workers = runner.tier_workers(tier)
    std.replay_files(rep, PID, check_any, load_case)
    # (i) + (ii)
    n_msgs = 64 if tier == 'quick' else 800
    import multiprocessing
    per = max(1, n_msgs // workers)
    args = [(i, per, seed, tier) for i in range(workers)]
    with multiprocessing.get_context('fork').Pool(workers) as pool:
        results = pool.map(_trunc_worker, args)
    hist = {}
    for r in results:
        rep.evaluations += r['n']
        rep.keys |= r['keys']
        rep.nontrivial |= r['keys']
        rep.add_bulk(r['prefixes'], r['prefixes'], r['classes'])
        if r['excluded']:
            rep.excluded['truncation: generated message rejected'] += r['excluded']
        for k, v in r['hist'].items():
            hist[k] = hist.get(k, 0) + v
        for s in r['samples']:
            if len(rep.samples) < 3:
                rep.samples.append(s)
        for clause, detail, cj in r['fails']:
            rep.add_failure('truncation: ' + clause, detail, cj, stage='truncation')
    rep.extra['truncation_exception_histogram'] = hist
    rep.extra['truncation_points_tried'] = rep.bulk_distinct
    # (iii)
    opts = gstreams.small_opts(tier, max_ids=8)
    n = 1500 if tier == 'quick' else 40000
    runner.run_generated(rep, lambda ch: gen_stream(ch, opts), check_stream, n, workers, stage='streams')
    runner.run_generated(rep, lambda ch: gen_stream(ch, opts), check_cli, 30 if tier == 'quick' else 1500,
                         4 if tier == 'quick' else workers, stage='command line')
    rep.required_classes = ['fault_stop_signature_overwritten', 'fault_undefined_descriptor_substituted',
                            'fault_section_length_changed', 'faults_2', 'first_message_damaged', 'truncation_message', 'cli']
    fuzz.run_structured(rep, 'checks.c12', _fuzz_gen, tier)
    return rep.finish()


def replay(path):
    return std.replay_main(PID, path, check_any, load_case)
