"""C14 -- templates are built from descriptor lists exactly as FM-94 prescribes.

Exhaustive: every entry of every bundled Table D (and all of Table B) against a direct
expansion of the JSON files by the reference model.  Random: well-formed descriptor lists
(replication nesting <= 4, X <= 63, twins that differ only deep inside), table selections
incl. fall-back, and messages holding a descriptor that is in no table."""
import hashlib
import json

from vlib import runner, sut, std, fuzz
from vlib.compare import first_value_diff
from vlib.runner import Outcome, Report, Reject
from gen import messages as gmsg, pool as gpool
from gen.values import GenSource
from refbufr import tables as rtables, tree as rtree, frame, codec, IllFormed, Unsupported
from pybufrkit.tables import TableGroupCacheManager
from pybufrkit import descriptors as D

PID = 'C14'


# ---- views of the library's descriptor objects ---------------------------------------------------
def sut_shape(members):
    out = []
    for m in members:
        t = type(m)
        if t is D.ElementDescriptor:
            out.append(('E', m.id))
        elif t is D.UndefinedElementDescriptor:
            out.append(('UE', m.id))
        elif t is D.OperatorDescriptor:
            out.append(('O', m.id))
        elif t is D.UndefinedSequenceDescriptor:
            out.append(('US', m.id))
        elif t is D.SequenceDescriptor:
            out.append(('S', m.id, sut_shape(m.members)))
        elif t is D.FixedReplicationDescriptor:
            out.append(('R', m.id, sut_shape(m.members)))
        elif t is D.DelayedReplicationDescriptor:
            out.append(('D', m.id, m.factor.id if m.factor is not None else None, sut_shape(m.members)))
        else:
            out.append(('?' + t.__name__, getattr(m, 'id', None)))
    return out


def first_shape_diff(a, b, path=''):
    if len(a) != len(b):
        return path, 'member count %d vs %d' % (len(a), len(b)), [x[:2] for x in a][:8], [x[:2] for x in b][:8]
    for i, (x, y) in enumerate(zip(a, b)):
        if x[:-1] != y[:-1] if isinstance(x[-1], list) else x != y:
            return '%s/%d' % (path, i), 'node differs', x[:3], y[:3]
        if isinstance(x[-1], list):
            if not isinstance(y[-1], list):
                return '%s/%d' % (path, i), 'node differs', x[:3], y[:3]
            d = first_shape_diff(x[-1], y[-1], '%s/%d:%06d' % (path, i, x[1]))
            if d:
                return d
    return None


def sut_group(master_number, centre, subcentre, master_version, local_version):
    return TableGroupCacheManager.get_table_group(
        master_table_number=master_number, originating_centre=centre, originating_subcentre=subcentre,
        master_table_version=master_version, local_table_version=local_version)


# ---- stage 1: every Table D entry / Table B row of one table selection -------------------------
def check_tables(sel):
    """sel = (centre, subcentre, master_version, local_version).  Returns dict of counters + failures"""
    centre, sub, mv, lv = sel
    res = {'sel': list(sel), 'n_seq': 0, 'n_nontrivial': 0, 'n_elem': 0, 'fails': [], 'excluded': 0}

    def bad(clause, **d):
        d['table_selection'] = {'originating_centre': centre, 'originating_subcentre': sub,
                                'master_table_version': mv, 'local_table_version': lv}
        if len(res['fails']) < 12:
            res['fails'].append((clause, d))
    rt = rtables.load_for(0, centre, sub, mv, lv)
    o = sut.call(sut_group, 0, centre, sub, mv, lv)
    if not o.ok:
        bad('loading the table group raised %s@%s' % (o.exc_type, o.frame), error=o.msg)
        return res
    g = o.value
    # Table B rows
    sb = g.B.descriptors
    if sorted(sb) != sorted(rt.B):
        bad('Table B of the group does not hold exactly the ids of the table files',
            missing=sorted(set(rt.B) - set(sb))[:5], surplus=sorted(set(sb) - set(rt.B))[:5])
    for id_, e in rt.B.items():
        d = sb.get(id_)
        if d is None:
            continue
        res['n_elem'] += 1
        got = (d.name, d.unit, d.scale, d.refval, d.nbits)
        if got != (e.name, e.unit, e.scale, e.ref, e.nbits):
            bad('Table B attributes of an element differ from the table file', id=id_, got=got,
                expected=(e.name, e.unit, e.scale, e.ref, e.nbits))
    # Table D entries
    if sorted(g.D.descriptors) != sorted(rt.D):
        bad('Table D of the group does not hold exactly the ids of the table files',
            missing=sorted(set(rt.D) - set(g.D.descriptors))[:5], surplus=sorted(set(g.D.descriptors) - set(rt.D))[:5])
    cache = {}
    for sid in sorted(rt.D):
        try:
            nodes = rtree.parse([sid], rt, strict=True, _seq_cache=cache)
        except IllFormed:
            res['excluded'] += 1
            continue
        res['n_seq'] += 1
        exp_shape = rtree.shape(nodes)[0]
        if any(isinstance(x, tuple) and x[0] in ('S', 'R', 'D') for x in exp_shape[2]):
            res['n_nontrivial'] += 1
        sd = g.lookup(sid)
        if type(sd) is not D.SequenceDescriptor:
            bad('sequence of the table file is not a sequence descriptor in the group', id=sid, got=type(sd).__name__)
            continue
        exp_flat = rtree.expand(nodes)
        got_flat = D.flat_member_ids(sd)
        if got_flat != exp_flat:
            k = next((i for i, (a, b) in enumerate(zip(got_flat, exp_flat)) if a != b), min(len(got_flat), len(exp_flat)))
            bad('flat expansion of a Table D sequence differs from the direct expansion of the table file', id=sid,
                index=k, got=got_flat[k:k + 4], expected=exp_flat[k:k + 4], n_got=len(got_flat), n_expected=len(exp_flat))
            continue
        dff = first_shape_diff(sut_shape(sd.members), exp_shape[2])
        if dff:
            bad('tree of a Table D sequence differs from the FM-94 construction', id=sid, at=dff[0], what=dff[1],
                got=dff[2], expected=dff[3])
        # attributes of every element reached through the sequence
        stack = list(sd.members)
        while stack:
            m = stack.pop()
            if type(m) is D.ElementDescriptor:
                e = rt.B.get(m.id)
                if e is None or (m.name, m.unit, m.scale, m.refval, m.nbits) != (e.name, e.unit, e.scale, e.ref, e.nbits):
                    bad('element inside a sequence lost its Table B attributes', sequence=sid, id=m.id)
                    break
            elif hasattr(m, 'members') and m.members:
                stack.extend(m.members)
                if type(m) is D.DelayedReplicationDescriptor:
                    stack.append(m.factor)
    return res


# ---- stage 2: random well-formed lists ---------------------------------------------------------
class ListCase(object):
    def __init__(self, sel, ids, history=None, extra=False):
        self.sel, self.ids, self.history = sel, ids, history or []
        self.extra = extra         # evaluate in a process that holds in-stream table definitions (stage 6)

    def key(self):
        return hashlib.sha1(repr((self.sel, self.ids, self.history, self.extra)).encode()).hexdigest()[:20]

    def summary(self):
        return {'table_selection': list(self.sel), 'descriptors': ['%06d' % i for i in self.ids]}

    def to_json(self):
        return {'kind': 'list', 'sel': list(self.sel), 'ids': self.ids, 'history': self.history, 'extra': self.extra}

    @staticmethod
    def from_json(d):
        return ListCase(tuple(d['sel']), list(d['ids']), [list(h) for h in d.get('history') or []], bool(d.get('extra')))


OPS = [201130, 201000, 202129, 202000, 204008, 204000, 205004, 206012, 207002, 207000, 208016, 208000, 221003, 222000,
       223000, 223255, 224000, 224255, 225000, 225255, 232000, 232255, 235000, 236000, 237000, 237255, 203012, 203255, 203000]
UNDEFINED_E = [1250, 12250, 48001, 63255, 20255, 0]      # 0: the all-zero descriptor 0 00 000 is in no table either
UNDEFINED_S = [363255, 301250, 348001]
FACTORS = [31000, 31001, 31002, 31011, 31012]
SELECTIONS = [(0, 0, 33, 0), (0, 0, 13, 0), (0, 0, 25, 0), (98, 0, 19, 1), (98, 0, 40, 101), (0, 0, 41, 0), (98, 0, 33, 3)]


def leaf(ch, rt, ids_b, ids_d):
    k = ch.weighted([(10, 'E'), (4, 'S'), (3, 'O'), (1, 'UE'), (1, 'US')])
    if k == 'E':
        return ids_b[ch.int(0, len(ids_b) - 1)]
    if k == 'S':
        return ids_d[ch.int(0, len(ids_d) - 1)]
    if k == 'O':
        return ch.choice(OPS)
    if k == 'UE':
        return ch.choice([i for i in UNDEFINED_E if i not in rt.B] or [ids_b[0]])
    return ch.choice([i for i in UNDEFINED_S if i not in rt.D] or [ids_d[0]])


def gen_items(ch, rt, ids_b, ids_d, depth, max_len, reps):
    """flat id list of a well-formed run of items, at most max_len ids"""
    out = []
    n_items = ch.int(1, 5) if depth else ch.int(1, 7)
    for _ in range(n_items):
        room = max_len - len(out)
        if room <= 0:
            break
        if room >= 3 and depth < 4 and ch.bool(2, 5):
            if reps and ch.bool(1, 4):
                # a twin of an earlier replication: same ids except one leaf deep inside
                twin = list(ch.choice(reps))
                if len(twin) <= room:
                    pos = [i for i in range(len(twin)) if twin[i] // 100000 == 0 and twin[i] // 1000 != 31]
                    if pos:
                        p = pos[-1 - ch.int(0, min(2, len(pos) - 1))]
                        twin[p] = ids_b[ch.int(0, len(ids_b) - 1)]
                    out.extend(twin)
                    continue
            delayed = ch.bool()
            body = gen_items(ch, rt, ids_b, ids_d, depth + 1, min(63, room - (2 if delayed else 1)), reps)
            x = len(body)
            if delayed:
                rep = [100000 + x * 1000, ch.choice([f for f in FACTORS if f in rt.B])] + body
            else:
                rep = [100000 + x * 1000 + ch.weighted([(3, 1), (3, 2), (2, 3), (1, 17), (1, 255), (1, 999)])] + body
            reps.append(rep)
            out.extend(rep)
        else:
            out.append(leaf(ch, rt, ids_b, ids_d))
    return out


_IDS = {}


def ids_of(sel):
    if sel not in _IDS:
        rt = rtables.load_for(0, *sel)
        _IDS[sel] = (rt, sorted(rt.B), sorted(rt.D))
    return _IDS[sel]


def gen_list(ch):
    sel = ch.choice(SELECTIONS)
    rt, ids_b, ids_d = ids_of(sel)
    big = ch.bool(1, 8)
    ids = gen_items(ch, rt, ids_b, ids_d, 0, 200 if big else 40, [])
    if big and ch.bool():
        # one replication with the largest X: 63 plain descriptors
        body = [leaf(ch, rt, ids_b, ids_d) for _ in range(63)]
        ids = [163000 + ch.int(1, 3)] + body + ids
    return ListCase(sel, ids)


def check_list(case):
    out = Outcome()
    rt = rtables.load_for(0, *case.sel)
    try:
        nodes = rtree.parse(case.ids, rt, strict=True)
    except IllFormed as e:
        raise Reject('reference: %s' % str(e)[:40])
    exp = rtree.shape(nodes)
    depth = _depth(exp)
    out.classes = ['list', 'list_nesting_%d' % min(depth, 4)]
    if any(x[0] in ('UE', 'US') for x in _walk(exp)):
        out.classes.append('list_with_undefined_id')
    if any(((x[1] // 1000) % 100) >= 40 for x in _walk(exp) if x[0] in ('R', 'D')):
        out.classes.append('list_X_ge_40')
    out.nontrivial = depth >= 2
    o = sut.call(sut_group, 0, *case.sel)
    if not o.ok:
        return out.fail('loading the table group raised %s@%s' % (o.exc_type, o.frame), error=o.msg)
    g = o.value
    for h in case.history:          # lists built earlier from the same table group (replay of a history dependence)
        sut.call(g.template_from_ids, *h)
    o = sut.call(g.template_from_ids, *case.ids)
    if not o.ok:
        return out.fail('template_from_ids raised %s@%s' % (o.exc_type, o.frame), error=o.msg)
    t = o.value
    dff = first_shape_diff(sut_shape(t.members), exp)
    if dff:
        out.fail('template tree differs from the FM-94 construction (replication ownership / expansion)', at=dff[0],
                 what=dff[1], got=dff[2], expected=dff[3])
    back = sut.call(lambda: list(t.original_descriptor_ids))
    if not back.ok:
        out.fail('original_descriptor_ids raised %s' % back.exc_type, error=back.msg)
    elif back.value != list(case.ids):
        k = next((i for i, (a, b) in enumerate(zip(back.value, case.ids)) if a != b), min(len(back.value), len(case.ids)))
        out.fail('flattening the tree does not return the original list', index=k, got=back.value[k:k + 4],
                 expected=case.ids[k:k + 4])
    got_flat = sut.call(D.flat_member_ids, t)
    if got_flat.ok and got_flat.value != rtree.expand(nodes):
        out.fail('expanded id list of the template differs from the direct expansion')
    return out


# ---- stage 6: the same once the process holds in-stream table definitions ------------------------------------------
# After a table-definition message has been read (C20) every template is post-processed for the NCEP style of sequence
# (tables._fix_ncep_descriptors).  The construction rule is the same: the stage registers one extra element that nothing
# uses (the public TableGroupCacheManager.add_extra_entries, as the stream scanner does) in a forked child and repeats the
# list and Table D comparisons there.
EXTRA_B = {'063250': ['VERIF EXTRA ELEMENT', 'NUMERIC', 0, 0, 8, '', 0, 0]}


def _with_extra_entries(fn, *args):
    TableGroupCacheManager.invalidate()
    TableGroupCacheManager.add_extra_entries(dict(EXTRA_B), {})
    return fn(*args)


def _list_outcome(case):
    try:
        out = check_list(case)
    except Reject as e:
        return ('reject', str(e))
    return ('ok', out.classes, out.nontrivial, out.failures)


def gen_list_extra(ch):
    c = gen_list(ch)
    c.extra = True
    return c


def check_list_extra(case):
    from vlib import forkexec
    r = forkexec.run(_with_extra_entries, _list_outcome, case)
    if r[0] == 'reject':
        raise Reject(r[1])
    out = Outcome()
    out.classes = ['after_in_stream_definitions'] + ['extra_' + c for c in r[1]]
    out.nontrivial = r[2]
    out.failures = [('after in-stream table definitions: ' + c, d) for c, d in r[3]]
    return out


def _sequence_templates(sel):
    centre, sub, mv, lv = sel
    rt = rtables.load_for(0, centre, sub, mv, lv)
    g = sut_group(0, centre, sub, mv, lv)
    fails, n = [], 0
    cache = {}
    for sid in sorted(rt.D):
        try:
            nodes = rtree.parse([sid], rt, strict=True, _seq_cache=cache)
        except IllFormed:
            continue
        n += 1
        o = sut.call(g.template_from_ids, sid)
        if not o.ok:
            fails.append(('template_from_ids of one sequence raised %s@%s' % (o.exc_type, o.frame), {'id': sid, 'error': o.msg}))
            continue
        dff = first_shape_diff(sut_shape(o.value.members), rtree.shape(nodes))
        if dff:
            fails.append(('template of one Table D sequence differs from the FM-94 construction',
                          {'id': sid, 'at': dff[0], 'what': dff[1], 'got': dff[2], 'expected': dff[3]}))
        elif list(o.value.original_descriptor_ids) != [sid]:
            fails.append(('flattening the template of one sequence does not return the sequence',
                          {'id': sid, 'got': list(o.value.original_descriptor_ids)[:6]}))
        if len(fails) >= 6:
            break
    return n, fails


def check_sequences_extra(sel):
    from vlib import forkexec
    n, fails = forkexec.run(_with_extra_entries, _sequence_templates, sel, _timeout=600)
    n0, fails0 = forkexec.run(_sequence_templates, sel, _timeout=600)
    return {'sel': list(sel), 'n': n + n0, 'fails': [('after in-stream table definitions: ' + c, d) for c, d in fails] + fails0}


def _walk(shape):
    for x in shape:
        yield x
        if isinstance(x[-1], list):
            for y in _walk(x[-1]):
                yield y


def _depth(shape):
    d = 0
    for x in shape:
        if x[0] in ('R', 'D'):
            d = max(d, 1 + _depth(x[-1]))
        elif x[0] == 'S':
            d = max(d, _depth(x[-1]))
    return d


# ---- stage 3: table selection ----------------------------------------------------------------------
def selection_cells():
    cells = []
    for mn in (0, 3):
        for centre in (0, 98, 7, 254):
            for sub in (0, 1, 98):
                for mv in (5, 6, 13, 24, 33, 41, 42, 255):
                    for lv in (0, 1, 2, 3, 101, 4, 255):
                        cells.append((mn, centre, sub, mv, lv))
    return cells


def check_selection(cell):
    mn, centre, sub, mv, lv = cell
    exp = rtables.select(mn, centre, sub, mv, lv)
    o = sut.call(sut_group, mn, centre, sub, mv, lv)
    detail = {'master_table_number': mn, 'originating_centre': centre, 'originating_subcentre': sub,
              'master_table_version': mv, 'local_table_version': lv}
    if not o.ok:
        return [('selecting tables raised %s@%s' % (o.exc_type, o.frame), dict(detail, error=o.msg))]
    k = o.value.key
    got = (tuple(k.wmo_tables_sn), tuple(k.local_tables_sn) if k.local_tables_sn else None)
    if got != exp:
        return [('table selection differs from the documented fall-back rule', dict(detail, got=got, expected=exp))]
    return []


# ---- stage 7: the table selection and the expansion as the command line shows them ---------------------------------
def cli_cells(tier):
    cells = []
    mvs = (13, 33, 42) if tier == 'quick' else (6, 13, 19, 25, 33, 40, 41, 42)
    for mv in mvs:
        for (centre, sub, lv) in ((None, None, None), (98, 0, 1), (98, 0, 101), (98, 1, 3), (7, 0, 2)):
            cells.append((centre, sub, mv, lv))
    cells.append((None, None, None, None))
    return cells


def _lookup_lines(shape, depth=0, out=None):
    """the (depth, id) sequence of the lookup command's indented listing"""
    out = [] if out is None else out
    for x in shape:
        out.append((depth, x[1]))
        if x[0] == 'D':
            if x[2] is not None:
                out.append((depth + 1, x[2]))
            _lookup_lines(x[3], depth + 1, out)
        elif x[0] in ('S', 'R'):
            _lookup_lines(x[2], depth + 1, out)
    return out


def check_cli_cell(cell):
    """lookup and compile for one table selection given through the command-line options"""
    from vlib import cli
    centre, sub, mv, lv = cell
    fails = []
    detail = {'originating_centre': centre, 'originating_subcentre': sub, 'master_table_version': mv, 'local_table_version': lv}
    opts = []
    for flag, v in (('--originating-centre', centre), ('--originating-subcentre', sub), ('--master-table-version', mv),
                    ('--local-table-version', lv)):
        if v is not None:
            opts += [flag, str(v)]
    exp_sel = rtables.select(0, centre, sub, mv, lv)
    rt = rtables.load(*exp_sel)
    rt33 = rtables.load_for(0, 0, 0, 33, 0)
    # elements and sequences that this selection defines otherwise than the default tables do (or that only it defines)
    elems = [i for i in sorted(rt.B) if i // 1000 not in (0, 31) and (i not in rt33.B or
             (rt.B[i].nbits, rt.B[i].scale, rt.B[i].ref) != (rt33.B[i].nbits, rt33.B[i].scale, rt33.B[i].ref))][:6]
    elems += [1001, 12001]
    seqs = []
    cache = {}
    for sid in sorted(rt.D):
        if len(seqs) >= 6:
            break
        if sid not in rt33.D or rt.D[sid][1] != rt33.D[sid][1]:
            try:
                rtree.parse([sid], rt, strict=True, _seq_cache=cache)
                seqs.append(sid)
            except IllFormed:
                pass
    seqs += [s_ for s_ in (301011, 302036) if s_ in rt.D]
    ids = elems + seqs + [102000 + 0, 31001, 1001, 1002]
    nodes = rtree.parse(ids, rt, strict=True)
    want = _lookup_lines(rtree.shape(nodes))
    o, so, se = cli.run_main(['lookup', ','.join('%06d' % i for i in ids)] + opts)
    if not o.ok:
        fails.append(('lookup command raised %s@%s' % (o.exc_type, o.frame), dict(detail, error=o.msg)))
    else:
        got = []
        attrs = {}
        for line in so.splitlines():
            body = line.lstrip(' .')
            if len(body) < 6 or not body[:6].isdigit():
                continue
            depth = (len(line) - len(body)) // 4
            got.append((depth, int(body[:6])))
            if depth == 0 and body.count(', ') >= 4:
                parts = body.rsplit(', ', 4)
                attrs[int(body[:6])] = (parts[1], parts[2], parts[3], parts[4])
        if got != want:
            k = next((i for i, (a, b) in enumerate(zip(got, want)) if a != b), min(len(got), len(want)))
            fails.append(('lookup command: the listing is not the expansion of the selected tables', dict(detail, index=k, got=got[k:k + 4],
                                                                                                       expected=want[k:k + 4])))
        for i in elems:
            e = rt.B[i]
            if attrs.get(i) != (e.unit, str(e.scale), str(e.ref), str(e.nbits)):
                fails.append(('lookup command: Table B attributes of an element are not those of the selected tables',
                              dict(detail, id=i, got=attrs.get(i), expected=(e.unit, e.scale, e.ref, e.nbits))))
                break
    nums = [i for i in elems if rt.B[i].kind == 'num' and not rt.B[i].sut_numeric_codeish][:5]
    tids = nums + [101002] + nums[:1]
    o, so, se = cli.run_main(['compile', ','.join('%06d' % i for i in tids)] + opts)
    if not o.ok:
        fails.append(('compile command raised %s@%s' % (o.exc_type, o.frame), dict(detail, error=o.msg)))
    else:
        try:
            d = json.loads(so)
        except ValueError:
            d = None
        if not isinstance(d, dict):
            fails.append(('compile command: output is not a JSON object', dict(detail, got=so[:100])))
        else:
            key = d.get('table_group_key') or [None, None, None]
            got_sel = (tuple(key[1]) if key[1] else None, tuple(key[2]) if key[2] else None)
            if got_sel != exp_sel:
                fails.append(('compile command: the compiled template names other tables than the selected ones',
                              dict(detail, got=got_sel, expected=exp_sel)))
            if d.get('template_ids') != tids:
                fails.append(('compile command: template ids differ', dict(detail, got=d.get('template_ids'), expected=tids)))
            calls = []

            def walk(stmts):
                for st in stmts:
                    if st.get('type') == 'CoderMethodCall' and st.get('method_name') == 'process_numeric':
                        calls.append(tuple(st['args'][:2]) + (st['args'][3],))
                    walk(st.get('statements') or [])
            walk(d.get('statements') or [])
            want_calls = [(i, rt.B[i].nbits, rt.B[i].ref) for i in nums + nums[:1]]
            if calls != want_calls:
                fails.append(('compile command: widths / reference values in the compiled template are not those of the selected tables',
                              dict(detail, got=calls[:4], expected=want_calls[:4])))
    return fails


# ---- stage 8: two tables root directories in one process ------------------------------------------------------------
def _roots_history(private, order):
    """in a forked child: table selections under the bundled and under a private tables root, in the given order"""
    from refbufr import TABLES_ROOT
    fails = []
    for which, mv in order:
        root = private if which == 'private' else None
        exp = rtables.select(0, 0, 0, mv, 0, root=root or TABLES_ROOT)
        rt = rtables.Tables(exp[0], exp[1], root=root or TABLES_ROOT)
        detail = {'tables_root_dir': which, 'master_table_version': mv, 'order': [list(x) for x in order]}
        o = sut.call(lambda: TableGroupCacheManager.get_table_group(tables_root_dir=root, master_table_version=mv))
        if not o.ok:
            fails.append(('selecting tables under a tables root directory raised %s@%s' % (o.exc_type, o.frame), dict(detail, error=o.msg)))
            continue
        k = o.value.key
        got = (tuple(k.wmo_tables_sn), tuple(k.local_tables_sn) if k.local_tables_sn else None)
        if got != exp:
            fails.append(('table selection under a tables root directory differs from the fall-back rule applied to that directory',
                          dict(detail, got=got, expected=exp)))
            continue
        for id_ in (12001, 1001):
            d, e = o.value.B.descriptors.get(id_), rt.B[id_]
            if d is None or (d.scale, d.refval, d.nbits) != (e.scale, e.ref, e.nbits):
                fails.append(('Table B attributes are not those of the tables root directory asked for',
                              dict(detail, id=id_, got=None if d is None else (d.scale, d.refval, d.nbits), expected=(e.scale, e.ref, e.nbits))))
                break
        sd = o.value.lookup(301011)
        if D.flat_member_ids(sd) != [int(x) for x in rt.D[301011][1]]:
            fails.append(('a Table D sequence is not expanded from the tables root directory asked for',
                          dict(detail, id=301011, got=D.flat_member_ids(sd), expected=rt.D[301011][1])))
    return fails


ROOT_ORDERS = [
    [('bundled', 33), ('private', 33), ('bundled', 33), ('private', 77), ('bundled', 77), ('private', 25), ('bundled', 25)],
    [('private', 33), ('bundled', 33), ('private', 13), ('bundled', 13), ('bundled', 77), ('private', 77)],
    [('private', 77), ('bundled', 77), ('bundled', 25), ('private', 25), ('private', 33)],
    [('bundled', 77), ('private', 77), ('private', 40), ('bundled', 40)],
]


def check_roots(k):
    from vlib import cli, forkexec, privtables
    with cli.scratch('c14') as d:
        private = privtables.build(d)
        return forkexec.run(_roots_history, private, ROOT_ORDERS[k])


# ---- stage 4: messages whose template holds a descriptor that is in no table -----------------------------
class UnknownCase(object):
    def __init__(self, meta, ids, data_bits, shape, unknown, nbits_pad=256):
        self.meta, self.ids, self.data_bits, self.shape, self.unknown = meta, ids, data_bits, shape, unknown
        self.bytes = frame.build(meta, ids, data_bits + '0' * nbits_pad)[0]

    def key(self):
        return hashlib.sha1(self.bytes).hexdigest()[:20]

    def summary(self):
        return {'descriptors': ['%06d' % i for i in self.ids], 'unknown': '%06d' % self.unknown, 'placement': self.shape,
                'edition': self.meta['edition'], 'compressed': self.meta['is_compressed']}

    def to_json(self):
        meta = dict(self.meta)
        return {'kind': 'unknown', 'meta': meta, 'ids': self.ids, 'data_bits': self.data_bits, 'shape': self.shape,
                'unknown': self.unknown}

    @staticmethod
    def from_json(d):
        return UnknownCase(d['meta'], d['ids'], d['data_bits'], d['shape'], d['unknown'])


def gen_unknown(ch):
    mv = ch.choice([13, 25, 33, 40])
    pl = gpool.pool_for(mv)
    rt = pl.tables
    edition = ch.choice([4, 3, 2])
    meta = frame.default_meta(edition)
    meta['master_table_version'] = mv
    meta['is_compressed'] = ch.bool(1, 3)
    meta['n_subsets'] = ch.int(1, 3)

    def plain(n, keep_class=None):
        out = []
        for _ in range(n):
            if keep_class == 'c19':
                out.append(ch.choice(pl.class1to9))
            else:
                out.append(ch.choice(pl.num_all) if ch.bool(3, 4) else ch.choice(pl.strs))
        return out
    is_seq = ch.bool(1, 4)
    if is_seq:
        u = ch.choice([i for i in UNDEFINED_S if i not in rt.D])
    else:
        u = ch.choice([i for i in UNDEFINED_E if i not in rt.B])
    shape = ch.choice(['top', 'fixed_rep', 'delayed_rep', 'after_rep', 'in_221', 'nested_rep', 'in_sequence_position',
                       'replication_factor'])
    if shape == 'replication_factor' and is_seq:
        shape = 'top'
    pre = plain(ch.int(0, 3))
    post = plain(ch.int(0, 2))
    if shape == 'top':
        valid = pre
        ids = pre + [u] + post
    elif shape == 'fixed_rep':
        a, b = plain(ch.int(0, 2)), plain(ch.int(0, 2))
        cnt = ch.int(1, 3)
        valid = pre + a
        ids = pre + [100000 + (len(a) + 1 + len(b)) * 1000 + cnt] + a + [u] + b + post
    elif shape == 'delayed_rep':
        a, b = plain(ch.int(0, 2)), plain(ch.int(0, 2))
        valid = pre + [101000, 31001, 0] + a    # the place-holder 0 is removed below: factor value is given explicitly
        ids = pre + [100000 + (len(a) + 1 + len(b)) * 1000, 31001] + a + [u] + b + post
    elif shape == 'after_rep':
        a = plain(ch.int(1, 2))
        cnt = ch.int(1, 3)
        valid = pre + [100000 + len(a) * 1000 + cnt] + a
        ids = valid + [u] + post
    elif shape == 'in_221':
        a = plain(ch.int(0, 2), 'c19')
        b = plain(ch.int(0, 2))
        valid = pre + [221000 + len(a)] + a if a else pre
        ids = pre + [221000 + len(a) + 1 + len(b)] + a + [u] + b + post
    elif shape == 'replication_factor':
        # the unknown element stands where the class-31 factor of a delayed replication is expected
        a = plain(ch.int(1, 2))
        valid = pre
        ids = pre + [100000 + len(a) * 1000, u] + a + post
    elif shape == 'nested_rep':
        a = plain(ch.int(0, 2))
        valid = pre + a
        ids = pre + [100000 + (len(a) + 3) * 1000 + 2] + a + [102001, u] + plain(1) + post
    else:
        # directly after a Table D sequence and an operator pair
        s = ch.choice(pl.seqs)
        valid = pre + [s, 201130, 201000]
        ids = valid + [u] + post
    # data for everything in front of the unknown descriptor, written by the reference
    # (every 031001 is given the value 1: a zero factor would legitimately never reach the unknown descriptor)
    if shape == 'delayed_rep':
        valid = pre + ([100000 + len(a) * 1000, 31001] + a if a else [31001])
    try:
        tree = rtree.parse(valid, rt)
        src = FactorOne(ch)
        dec = codec.walk_all(tree, rt, meta['n_subsets'], meta['is_compressed'], lambda i: src)
        bits = codec.data_bits(dec, None)
    except (IllFormed, Unsupported) as e:
        raise Reject('unknown-descriptor case: %s' % str(e)[:40])
    return UnknownCase(meta, ids, bits, shape, u)


class FactorOne(GenSource):
    def leaf(self, walk, f):
        if f.label == '031001':
            return [1] * walk.nsub
        return GenSource.leaf(self, walk, f)


_DECS = {}


def decoders():
    if not _DECS:
        _DECS['plain'] = sut.Decoder()
        _DECS['compiled'] = sut.Decoder(compiled_template_cache_max=8)
    return _DECS


def check_unknown(case):
    out = Outcome()
    out.nontrivial = case.shape != 'top'
    out.classes = ['unknown_' + case.shape, 'unknown_sequence' if case.unknown >= 300000 else 'unknown_element']
    # the same message with the unknown descriptor cut out must be fine up to that point: sanity of the harness
    for name, dec in sorted(decoders().items()):
        o = sut.call(dec.process, case.bytes)
        if o.ok:
            ob = sut.observe(o.value)
            out.fail('a descriptor that is in no table was skipped: the message decoded without error (%s decoder)' % name,
                     unknown='%06d' % case.unknown, labels=ob['labels'][0][:12], values=ob['values'][0][:12])
        elif not isinstance(o.exc, sut.UnknownDescriptor):
            out.fail('a descriptor that is in no table made the decode fail with %s, not the unknown-descriptor error (%s decoder)'
                     % (o.exc_type, name), unknown='%06d' % case.unknown, error=o.msg, frame=o.frame)
    return out


# ---- stage 5: decode under fall-back selections --------------------------------------------------------
FALLBACKS = [  # (meta override, note)
    ({'master_table_version': 42}, 'unbundled master version -> 33'),
    ({'master_table_version': 5}, 'unbundled master version -> 33'),
    ({'originating_centre': 98, 'originating_subcentre': 5, 'local_table_version': 1}, 'unbundled sub-centre -> 98_0'),
    ({'originating_centre': 98, 'originating_subcentre': 0, 'local_table_version': 7}, 'unbundled local version -> none'),
    ({'originating_centre': 7, 'originating_subcentre': 3, 'local_table_version': 1}, 'unbundled centre -> none'),
    ({'master_table_number': 3}, 'unbundled master table number -> 0'),
]
_FB_OPTS = {}


def gen_fallback(ch):
    k = ch.int(0, len(FALLBACKS) - 1)
    over, note = FALLBACKS[k]
    opts = _FB_OPTS.get(k)
    if opts is None:
        opts = gmsg.GenOpts('quick')
        opts.local_tables = False
        opts.versions = [33]
        opts.editions = [4, 3]
        _FB_OPTS[k] = opts
    # generated on master version 33 (where every master fall-back lands), then relabelled
    case = gmsg.gen_case(ch, opts)
    meta = dict(case.meta)
    meta.update(over)
    case.meta = meta
    if gmsg.tables_of_meta(meta).wmo_sn != case.tables.wmo_sn:
        raise Reject('fallback does not land on the generating tables')
    gmsg.build_bytes(case)
    case.features.add('fallback: ' + note)
    return case


def check_fallback(case):
    from checks.c01 import compare_decode
    out = Outcome()
    out.nontrivial = True
    out.classes = sorted(f for f in case.features if f.startswith('fallback'))
    lt = gmsg.tables_of_meta(case.meta)
    if lt.local_sn is not None:
        # re-walk with the overlaid tables so that locally redefined ids are expected with the local definition
        try:
            c2 = gmsg.Case.from_json(case.to_json())
        except (IllFormed, Unsupported) as e:
            raise Reject('fallback overlay: %s' % str(e)[:40])
        if c2.bytes != case.bytes:
            raise Reject('local overlay redefines an id of the case')
    compare_decode(out, case.bytes, case.values(), case.labels(), case.meta, case.ids)
    return out


def load_case(d):
    if d.get('kind') == 'unknown':
        return UnknownCase.from_json(d)
    if d.get('kind') == 'list':
        return ListCase.from_json(d)
    return gmsg.Case.from_json(d)


def check_any(case):
    if isinstance(case, UnknownCase):
        return check_unknown(case)
    if isinstance(case, ListCase):
        return check_list_extra(case) if case.extra else check_list(case)
    return check_fallback(case)


def all_selections():
    sels = [(0, 0, v, 0) for v in rtables.available_master_versions()]
    locs = rtables.available_local()
    return sels, locs


# ---- coverage-guided stage: the same generators and oracles, decisions taken from fuzzer bytes (vlib.fuzz) ----
fuzz_list = fuzz.structured_target(gen_list, check_list)
fuzz_unknown = fuzz.structured_target(gen_unknown, check_unknown)


def run(tier, seed):
    rep = Report(PID, tier, seed, 'exploration')
    rep.rule = ('exhaustive: every Table D entry and Table B row of the selected bundled table groups (quick: 5 master versions + '
                'all local tables; thorough: all) against a direct expansion of the JSON files by the reference model; every cell '
                'of a table-selection grid incl. unbundled numbers/versions/centres; random: well-formed descriptor lists '
                '(nesting <= 4, X <= 63, twin replications differing deep inside, undefined ids), messages with a descriptor that '
                'is in no table at 8 placements x plain/compiled decoder, messages decoded under fall-back selections.  '
                'Non-trivial = a sequence holding a sequence or replication / a list with nested replication / an unknown '
                'descriptor not at top level.')
    rep.assumptions = ['FM-94 counting rule as refbufr.tree implements it (1XXYYY owns its factor and the next X raw descriptors)',
                       'Table D entries the reference finds ill-formed (body runs past the entry) are excluded and counted',
                       'master table version 0 (library default) is not part of the selection grid']
    workers = runner.tier_workers(tier)
    std.replay_files(rep, PID, check_any, load_case)
    # stage 1
    sels, locs = all_selections()
    if tier == 'quick':
        pick = [13, 19, 25, 33, 40]
        rot = seed % 3
        sels = [s for s in sels if s[2] in pick]
    table_sel = list(sels)
    for (c, s, lv) in locs:
        for mv in ([33] if tier == 'quick' else [13, 33, 41]):
            table_sel.append((c, s, mv, lv))
    res = runner.run_enumerated(table_sel, check_tables, workers, chunk=1)
    tot_excl = 0
    for r in res:
        rep.add_bulk(r['n_seq'], r['n_nontrivial'], {'table_d_entries': r['n_seq'], 'table_b_rows': r['n_elem'],
                                                      'table_groups': 1})
        tot_excl += r['excluded']
        for clause, detail in r['fails']:
            rep.add_failure('tables: ' + clause, detail, {'kind': 'tables', 'sel': r['sel']}, stage='table enumeration')
    if tot_excl:
        rep.excluded['Table D entries the reference finds ill-formed'] += tot_excl
    rep.exhaustive = True
    rep.extra['table_groups_enumerated'] = [list(s) for s in table_sel]
    rep.samples.append({'stage': 'tables', 'table_selection': list(table_sel[0]), 'checked': 'all Table D entries + Table B rows'})
    # stage 3
    cells = selection_cells()
    res = runner.run_enumerated(cells, check_selection, min(workers, 4), chunk=84)
    for cell, fails in zip(cells, res):
        rep.add_case('selection:%r' % (cell,), cell[3] in (5, 42, 255) or cell[4] in (4, 255) or cell[0] != 0 or cell[2] != 0,
                     ['selection_cell'])
        for clause, detail in fails:
            rep.add_failure('selection: ' + clause, detail, {'kind': 'selection', 'cell': list(cell)}, stage='selection grid')
    # stage 2
    n = 3000 if tier == 'quick' else 100000
    runner.run_generated(rep, gen_list, check_list, n, workers, stage='lists')
    # stage 4
    n = 1500 if tier == 'quick' else 40000
    runner.run_generated(rep, gen_unknown, check_unknown, n, workers, stage='unknown descriptor')
    # stage 5
    n = 400 if tier == 'quick' else 8000
    runner.run_generated(rep, gen_fallback, check_fallback, n, workers, stage='fallback decode')
    # stage 6
    n = 250 if tier == 'quick' else 6000
    runner.run_generated(rep, gen_list_extra, check_list_extra, n, workers, stage='lists after in-stream definitions')
    seq_sel = [(0, 0, 33, 0), (98, 0, 40, 101)] if tier == 'quick' else table_sel
    for r in runner.run_enumerated(seq_sel, check_sequences_extra, workers, chunk=1):
        rep.add_bulk(r['n'], r['n'], {'sequence_templates_with_and_without_in_stream_definitions': r['n']})
        for clause, detail in r['fails']:
            rep.add_failure('sequence templates: ' + clause, dict(detail, table_selection=r['sel']), {'kind': 'sequence_templates', 'sel': r['sel']},
                            stage='sequence templates')
    # stage 7
    ccells = cli_cells(tier)
    res = runner.run_enumerated(ccells, check_cli_cell, min(workers, 4), chunk=2)
    for cell, fails in zip(ccells, res):
        rep.add_case('cli:%r' % (cell,), True, ['command_line_lookup_and_compile'])
        for clause, detail in fails:
            rep.add_failure('command line: ' + clause, detail, {'kind': 'cli', 'cell': list(cell)}, stage='command line')
    # stage 8
    for k, fails in enumerate(runner.run_enumerated(list(range(len(ROOT_ORDERS))), check_roots, min(workers, 4), chunk=1)):
        rep.add_case('roots:%d' % k, True, ['two_tables_root_directories'])
        for clause, detail in fails:
            rep.add_failure('tables root: ' + clause, detail, {'kind': 'roots', 'order': k}, stage='tables root directories')
    rep.required_classes = ['after_in_stream_definitions', 'command_line_lookup_and_compile', 'two_tables_root_directories', 'list_nesting_4', 'list_with_undefined_id', 'list_X_ge_40', 'unknown_in_221', 'unknown_fixed_rep',
                            'unknown_delayed_rep', 'unknown_after_rep', 'unknown_nested_rep', 'unknown_sequence', 'unknown_replication_factor',
                            'selection_cell', 'table_d_entries']
    fuzz.run_structured(rep, 'checks.c14', gen_list, tier, funcname='fuzz_list', tag='lists')
    fuzz.run_structured(rep, 'checks.c14', gen_unknown, tier, funcname='fuzz_unknown', tag='unknown')
    return rep.finish()


def replay(path):
    with open(path) as f:
        d = json.load(f)
    c = d['case']
    if c.get('kind') in ('tables', 'selection', 'sequence_templates', 'cli', 'roots'):
        if c['kind'] == 'roots':
            fails = check_roots(c['order'])
        elif c['kind'] == 'cli':
            fails = check_cli_cell(tuple(c['cell']))
        elif c['kind'] == 'sequence_templates':
            fails = check_sequences_extra(tuple(c['sel']))['fails']
        elif c['kind'] == 'tables':
            fails = check_tables(tuple(c['sel']))['fails']
        else:
            fails = check_selection(tuple(c['cell']))
        for clause, detail in fails:
            print('VIOLATION property=%s replay=%s' % (PID, path))
            print('  clause: %s detail: %s' % (clause, json.dumps(runner.jsonable(detail))[:600]))
        if not fails:
            print('replay %s: property holds' % path)
        return 1 if fails else 0
    return std.replay_main(PID, path, check_any, load_case)
