"""C07 -- bitmap-driven and associated attributes are linked to the element they qualify.

Generator: templates biased to bitmap constructs (222000 quality info, 223/224/225/232
markers, 236000/237000/237255/235000 chains, 204 associated fields), all bit patterns drawn
as data, compressed and not, 1..4 subsets.  Oracle: the reference's back-reference model for
bitmap_links_all_subsets, and the expected hierarchical view (refbufr.nested) for the
nested JSON rendering."""
from vlib import runner, sut, std, fuzz
from vlib.compare import first_value_diff
from vlib.runner import Outcome, Report
from gen import messages as gmsg, templates as gtemplates
from refbufr import nested as rnested

PID = 'C07'
_DEC = None


def decoder():
    global _DEC
    if _DEC is None:
        _DEC = sut.Decoder()
    return _DEC


_CDEC = None


def compiled_decoder():
    global _CDEC
    if _CDEC is None:
        _CDEC = sut.Decoder(compiled_template_cache_max=3)
    return _CDEC


def nested_diff(a, b, path='$'):
    """first difference between two nested-JSON structures (floats within tolerance)"""
    from vlib.compare import same_value
    if isinstance(a, dict) and isinstance(b, dict):
        if set(a) != set(b):
            return path, sorted(a), sorted(b)
        for k in sorted(a):
            d = nested_diff(a[k], b[k], path + '.' + k)
            if d:
                return d
        return None
    if isinstance(a, list) and isinstance(b, list):
        if len(a) != len(b):
            return path + '.len', len(a), len(b)
        for i, (x, y) in enumerate(zip(a, b)):
            d = nested_diff(x, y, '%s[%d]' % (path, i))
            if d:
                return d
        return None
    if isinstance(b, float) or isinstance(a, float):
        return None if (isinstance(a, (int, float)) and isinstance(b, (int, float)) and
                        same_value(float(a), float(b))) else (path, a, b)
    return None if a == b else (path, a, b)


def expected_nested(case, i):
    wk = case.decoded.subsets[0] if case.compressed else case.decoded.subsets[i]
    vals = case.decoded.values_of(i)
    return sut.norm_json(rnested.build(wk.root, wk.fields, wk.links, lambda k: vals[k]))


def check_case(case):
    out = Outcome()
    feats = set(case.features)
    chain = sum(1 for d in case.ids if d in (222000, 223000, 224000, 225000, 232000))
    if chain >= 2:
        feats.add('chain_of_blocks')
    out.nontrivial = 'bitmap_mixed' in feats or chain >= 2 or '204' in feats
    out.classes = sorted(feats)
    _check_with(out, case, decoder(), '')
    # the same for the template-compiling decoder (a documented constructor argument), first compiling, then from its cache --
    # for templates in the domain of compilation (operators opened and closed inside one replication scope, C08)
    if not out.failures and not case.decoded.unbalanced():
        out.classes = sorted(set(out.classes) | {'also_with_template_compilation'})
        for tag in ('template compilation: ', 'compiled template from the cache: '):
            if _check_with(out, case, compiled_decoder(), tag).failures:
                break
    return out


def _check_with(out, case, dec, tag):
    o = sut.call(dec.process, case.bytes)
    if not o.ok:
        return out.fail(tag + 'decode raised %s@%s' % (o.exc_type, o.frame), error=o.msg)
    ob = sut.observe(o.value)
    exp_links = case.links()
    for i in range(case.nsub):
        if ob['links'][i] != exp_links[i]:
            return out.fail(tag + 'bitmap link differs from the element the bitmap designates', subset=i,
                            got=ob['links'][i], expected=exp_links[i], labels=case.labels()[i])
        if ob['labels'][i] != case.labels()[i]:
            return out.fail(tag + 'labels differ', subset=i, got=ob['labels'][i], expected=case.labels()[i])
        d = first_value_diff(ob['values'][i], case.values()[i])
        if d is not None:
            return out.fail(tag + 'value differs (marker width/reference?)', subset=i, index=d[0], got=d[1], expected=d[2],
                            label=case.labels()[i][d[0]] if isinstance(d[0], int) else None)
    got_nested = rnested.strip_description(sut.nested_template_data(o.value))
    if len(got_nested) != case.nsub:
        return out.fail(tag + 'hierarchical view has a different number of subsets', got=len(got_nested))
    for i in range(case.nsub):
        d = nested_diff(got_nested[i], expected_nested(case, i))
        if d is not None:
            return out.fail(tag + 'hierarchical view: attribute / structure differs from the expected one', subset=i,
                            path=d[0], got=d[1], expected=d[2])
    return out


def gen_opts(tier):
    opts = gmsg.GenOpts(tier)
    opts.max_subsets = 4
    opts.template = gtemplates.Opts(max_ids=24 if tier == 'quick' else 40, w_bitmap=14, w_204=4)
    return opts


def gen(tier):
    opts = gen_opts(tier)

    def g(ch):
        c = gmsg.gen_case(ch, opts)
        if not ({'bitmap', '204'} & c.features):
            raise runner.Reject('no bitmap / associated field in the case')
        return c
    return g


# ---- coverage-guided stage: the same generator and oracle, decisions taken from fuzzer bytes (vlib.fuzz) ----
_fuzz_gen = gen('quick')


fuzz_case = fuzz.structured_target(_fuzz_gen, check_case)


def run(tier, seed):
    rep = Report(PID, tier, seed, 'exploration')
    rep.rule = ('C01 generator restricted to cases with a bitmap construct or an associated field (others are discarded '
                'and counted); bitmap bits, lengths (1..8) and chains (236000 reuse, 237000 recall, 237255, 235000, '
                'same-length redefinition) are data / template choices.  Non-trivial = a bitmap with both 0 and 1 bits, or '
                'a chain of >= 2 operator blocks, or an associated field.')
    rep.assumptions = ['back-reference model of refbufr.walker (epoch = subset start or 235000; the N elements preceding the '
                       'first operator of the epoch)', 'marker operators inside an open 204 scope, a second bitmap of another '
                       'length in one epoch, 237000 after a later non-reuse bitmap are not generated (DESIGN 10-2)']
    rep.required_classes = ['222_qa', '223255', '224255', '225255', '232255', '235', '236', '237000', '237255', '204',
                            'bitmap_mixed', 'chain_of_blocks', 'compressed', 'uncompressed', 'nested_rep', '204_nested']
    std.replay_files(rep, PID, check_case, gmsg.Case.from_json)
    n = 4000 if tier == 'quick' else 100000
    runner.run_generated(rep, gen(tier), check_case, n, runner.tier_workers(tier),
                         shrink_s=20 if tier == 'quick' else 120)
    std.run_boundary(rep, tier, check_case, only=['bitmap_', 'subsets_'])
    std.run_named(rep, gmsg.same_shape_other_bitmap_cases(), check_case, 'same descriptors, other bitmap', 'same_descriptors_other_bitmap')
    fuzz.run_structured(rep, 'checks.c07', _fuzz_gen, tier)
    return rep.finish()


def replay(path):
    return std.replay_main(PID, path, check_case, gmsg.Case.from_json)
