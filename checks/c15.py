"""C15 -- the path-expression parser accepts exactly the documented grammar.

Exhaustive: every string up to length 5 (quick) / 6 (thorough) over the 12-symbol alphabet
@ [ ] : / . > - 0 1 A <space>.  Random: grammar-derived long expressions and their
single-character mutants.  Thorough: atheris on the parser with the same oracle in the target.
Oracle: refbufr.pathref (recogniser + parser written from docs/internals.rst)."""
import itertools
import json

from vlib import runner, sut, fuzz
from vlib.runner import Outcome, Report
from refbufr import pathref
from pybufrkit.dataquery import NodePathParser

PID = 'C15'
ALPHABET = '@[]:/.>-01A '
PathExprParsingError = sut.PathExprParsingError
_P = NodePathParser()
_P0 = NodePathParser(bare_id_matches_all=False)
LISTS = [list(range(n)) for n in range(0, 13)]


def apply_sut(obj, xs):
    """effect of the parser's slice object the way the query engine applies it
    (dataquery.filter_for_entities: an int k selects the k-th match or nothing and is taken
    at face value -- for a negative int the engine stops at the first match)"""
    if isinstance(obj, bool):
        return 'not a slice: %r' % (obj,)
    if isinstance(obj, int):
        if obj < 0:
            return list(xs[:1])
        return [xs[obj]] if obj < len(xs) else []
    if isinstance(obj, slice):
        try:
            return list(xs[obj])
        except (ValueError, TypeError):
            return 'error'
    return 'not a slice: %r' % (obj,)


def same_slice(obj, spec, bare_all=True):
    for xs in LISTS:
        if apply_sut(obj, xs) != pathref.apply_spec(spec, xs, bare_all):
            return False
    return True


_HIST = []          # the expressions the shared parser objects have seen (last 300)


def _fresh(both=True):
    return ((NodePathParser(), True), (NodePathParser(bare_id_matches_all=False), False)) if both else ((NodePathParser(), True),)


def _with_history(s, history, both=True):
    parsers = _fresh(both)
    for h in history:
        for p, _ in parsers:
            try:
                p.parse(h)
            except Exception:
                pass
    return _check_with(s, parsers)


HISTORY_CLAUSE = 'the verdict depends on expressions parsed earlier by the same parser object'


def check_string(s, both_parsers=True, previous=None):
    """(reference parse, [(clause, detail)]) for one input string.  The two parser objects are
    shared by all strings of a process (the way DataQuerent and the CLI reuse one parser), so
    a verdict that differs from the one a fresh parser gives is reported as a history
    dependence, with the shortest recent history found that reproduces it on a fresh parser."""
    if previous is not None:
        history = [previous] if isinstance(previous, str) else list(previous)
        ref, fails = _with_history(s, history)
        ref, fresh = _check_with(s, _fresh())
        if fails and not fresh:
            return ref, [(HISTORY_CLAUSE, {'input': s, 'previous': history, 'with_history': fails[0][0]})]
        return ref, fresh
    parsers = ((_P, True), (_P0, False)) if both_parsers else ((_P, True),)
    ref, fails = _check_with(s, parsers)
    hist = list(_HIST)
    _HIST.append(s)
    if len(_HIST) > 300:
        del _HIST[:100]
    if fails:
        ref, fresh = _check_with(s, _fresh(both_parsers))
        if fresh:
            return ref, fresh
        culprit = None
        for h in reversed(hist):
            if _with_history(s, [h], both_parsers)[1]:
                culprit = [h]
                break
        if culprit is None and _with_history(s, hist, both_parsers)[1]:
            culprit = hist
        fails = [(HISTORY_CLAUSE, {'input': s, 'previous': culprit, 'with_history': fails[0][0],
                                   'note': None if culprit else 'not reproduced from the last %d expressions' % len(hist)})]
    return ref, fails


def _check_with(s, parsers):
    fails = []
    ref = pathref.parse(s)
    for parser, bare_all in parsers:
        tag = '' if bare_all else ' (bare_id_matches_all=False)'
        try:
            got = parser.parse(s)
        except PathExprParsingError:
            got = None
        except Exception as e:
            fails.append(('rejected with %s instead of the path-parsing error%s' % (type(e).__name__, tag),
                          {'input': s, 'error': str(e)[:200], 'reference': ref.verdict}))
            continue
        if got is None:
            if ref.verdict == pathref.ACCEPT:
                fails.append(('a string of the documented grammar is rejected' + tag, {'input': s}))
            continue
        if ref.verdict == pathref.REJECT:
            fails.append(('a string outside the grammar is accepted' + tag,
                          {'input': s, 'why_invalid': ref.why, 'parsed_as': str(got)}))
            continue
        # accepted by both: the parse must be the one the grammar dictates
        comps = list(got.components)
        if [(c.separator, c.id) for c in comps] != [(c[0], c[1]) for c in ref.components]:
            fails.append(('components differ from the grammar\'s (part of the path dropped or invented)' + tag,
                          {'input': s, 'got': [(c.separator, c.id) for c in comps],
                           'expected': [(c[0], c[1]) for c in ref.components]}))
            continue
        if not same_slice(got.subset_slice, ref.subset, bare_all):
            fails.append(('subset selector differs' + tag, {'input': s, 'got': repr(got.subset_slice),
                                                            'expected': pathref.spec_to_str(ref.subset)}))
        for c, r in zip(comps, ref.components):
            if not same_slice(c.slice, r[2], bare_all):
                fails.append(('component slice differs' + tag, {'input': s, 'id': c.id, 'got': repr(c.slice),
                                                                'expected': pathref.spec_to_str(r[2])}))
                break
        # a path object handed out stays what it was when the parser goes on to other expressions
        before = ([(c.separator, c.id, repr(c.slice)) for c in got.components], repr(got.subset_slice), str(got))
        try:
            parser.parse('@[7]/ZZ9[1:2]/YY8.XX7[3]')
        except Exception:
            pass
        after = ([(c.separator, c.id, repr(c.slice)) for c in got.components], repr(got.subset_slice), str(got))
        if after != before:
            fails.append(('a path handed out earlier changes when the same parser parses another expression' + tag,
                          {'input': s, 'before': before[2], 'after': after[2]}))
            continue
        # printing and parsing the printout gives the same path
        try:
            text = str(got)
            again = parser.parse(text)
            if again.subset_slice != got.subset_slice or list(again.components) != comps:
                fails.append(('print / parse round trip gives a different path' + tag,
                              {'input': s, 'printed': text, 'reparsed': str(again)}))
        except Exception as e:
            fails.append(('printed path is not parseable' + tag, {'input': s, 'error': '%s: %s' % (type(e).__name__, e)}))
    return ref, fails


def nontrivial(s):
    return '[' in s or ']' in s or '@' in s


# ---- exhaustive stage --------------------------------------------------------------------------
def enum_prefix(item):
    prefix, maxlen = item
    n = nt = 0
    verdicts = {'accept': 0, 'lax': 0, 'reject': 0}
    fails = {}
    rest = maxlen - len(prefix)
    for k in range(0, rest + 1):
        for tail in itertools.product(ALPHABET, repeat=k):
            s = prefix + ''.join(tail)
            ref, fl = check_string(s, both_parsers=False)
            n += 1
            nt += 1 if nontrivial(s) else 0
            verdicts[ref.verdict] += 1
            for clause, detail in fl:
                if clause not in fails:
                    fails[clause] = [detail, 0]
                fails[clause][1] += 1
    return n, nt, verdicts, fails


# ---- exhaustive stage 2: every slice body ------------------------------------------------------------
BODY_ALPHABET = '-01: A'
CONTEXTS = [('0[', ']'), ('@[', ']/0'), ('/A[', '].1[0]')]


def enum_bodies(item):
    """every string over BODY_ALPHABET of length len(prefix)..maxlen that starts with prefix, between the
    brackets of a component slice, of the subset selector and of a slice followed by another component"""
    prefix, maxlen = item
    n = 0
    verdicts = {'accept': 0, 'lax': 0, 'reject': 0}
    fails = {}
    for k in range(0, maxlen - len(prefix) + 1):
        for tail in itertools.product(BODY_ALPHABET, repeat=k):
            body = prefix + ''.join(tail)
            for head, foot in CONTEXTS:
                s = head + body + foot
                ref, fl = check_string(s, both_parsers=False)
                n += 1
                verdicts[ref.verdict] += 1
                for clause, detail in fl:
                    if clause not in fails:
                        fails[clause] = [detail, 0]
                    fails[clause][1] += 1
    return n, n, verdicts, fails


def short_strings(plen):
    out = []
    for k in range(0, plen):
        for t in itertools.product(ALPHABET, repeat=k):
            out.append(''.join(t))
    return out


# ---- random stage --------------------------------------------------------------------------------
class StrCase(object):
    def __init__(self, s, kind, previous=None):
        self.s, self.kind, self.previous = s, kind, previous

    def key(self):
        return self.s

    def summary(self):
        return {'input': self.s, 'kind': self.kind, 'reference_verdict': pathref.parse(self.s).verdict}

    def to_json(self):
        return {'input': self.s, 'kind': self.kind, 'previous': self.previous}

    @staticmethod
    def from_json(d):
        return StrCase(d['input'], d.get('kind', 'replay'), d.get('previous'))


ID_CHARS = '0123456789ABCDEFGHIJKLMNOPQRSTUVWXYZ'
MUT_CHARS = '@[]:/.>-01A \t\n+_aZ9\xa0١x,;(){}=*'


def gen_int(ch):
    k = ch.weighted([(6, 0), (3, 1), (1, 2)])
    if k == 0:
        v = ch.int(0, 12)
    elif k == 1:
        v = -ch.int(1, 12)
    else:
        v = ch.choice([100, -100, 999999, -0])
    s = str(v)
    if ch.bool(1, 12):
        s = s.replace('-', '- ') if '-' in s else '0' + s
    return s


def gen_slice(ch):
    form = ch.weighted([(12, 'idx'), (8, 'ab'), (8, 'abc'), (4, 'all2'), (4, 'all3'), (1, 'four'), (1, 'empty'), (1, 'open')])
    if form == 'four':      # near misses: one part too many, nothing inside, not terminated
        return '[' + ':'.join(gen_int(ch) if ch.bool() else '' for _ in range(4)) + ']'
    if form == 'empty':
        return '[]'
    if form == 'open':
        return '[' + gen_int(ch) + ch.choice(['', ':'])
    if form == 'idx':
        return '[%s]' % gen_int(ch)
    if form == 'all2':
        return '[:]'
    if form == 'all3':
        return '[::]'
    n = 2 if form == 'ab' else 3
    parts = [gen_int(ch) if ch.bool() else '' for _ in range(n)]
    return '[' + ':'.join(parts) + ']'


def gen_id(ch):
    if ch.bool(5, 6):
        first = ch.choice('0123ABCDFRST')
        return first + ''.join(ch.choice('0123456789') for _ in range(5))
    return ''.join(ch.choice(ID_CHARS) for _ in range(ch.int(1, 8)))


def blanks(ch):
    return ch.weighted([(6, ''), (2, ' '), (1, '  '), (1, '\t'), (1, ' \n')])


def gen_expr(ch):
    parts = []
    has_at = ch.bool(1, 3)
    if has_at:
        parts += ['@', gen_slice(ch)]
    n = ch.weighted([(3, 1), (3, 2), (2, 3), (1, 5), (1, 8)])
    for i in range(n):
        if i == 0:
            sep = ch.weighted([(6, '/'), (6, '>'), (1, '.'), (1, '')]) if has_at else ch.weighted([(6, '/'), (6, '>'), (6, ''), (1, '.')])
        else:
            sep = ch.choice(['/', '.', '>'])
        parts.append(sep)
        parts.append(gen_id(ch))
        if ch.bool(1, 2):
            parts.append(gen_slice(ch))
    out = blanks(ch) if ch.bool(1, 4) else ''
    for p in parts:
        out += p + blanks(ch)
    return out


def gen_case(ch):
    s = gen_expr(ch)
    kind = 'grammar'
    nmut = ch.weighted([(2, 0), (4, 1), (1, 2)])
    for _ in range(nmut):
        kind = 'mutant'
        op = ch.choice(['insert', 'delete', 'replace'])
        if not s:
            op = 'insert'
        pos = ch.int(0, len(s) - (0 if op == 'insert' else 1)) if s else 0
        c = ch.choice(MUT_CHARS)
        if op == 'insert':
            s = s[:pos] + c + s[pos:]
        elif op == 'delete':
            s = s[:pos] + s[pos + 1:]
        else:
            s = s[:pos] + c + s[pos + 1:]
    return StrCase(s, kind)


def check_case(case):
    out = Outcome()
    ref, fails = check_string(case.s, previous=case.previous)
    out.nontrivial = nontrivial(case.s)
    out.classes = ['random_' + case.kind, 'random_verdict_' + ref.verdict]
    for clause, detail in fails:
        out.fail(clause, **detail)
        if detail.get('previous') is not None and case.previous is None:
            case.previous = detail['previous']      # the replay file then carries the two-step history
    return out


# ---- atheris target --------------------------------------------------------------------------------
def fuzz_one(data):
    s = data.decode('latin-1')
    ref, fails = check_string(s)
    return s, nontrivial(s), ['verdict_' + ref.verdict], [(c, d, {'input': s, 'kind': 'fuzz', 'previous': d.get('previous')}) for c, d in fails]


SEEDS = ['/001001', '@[0] / 103008 / 001001[:].008321[::]', '@[0:10] /001008[1]. A01008', '@[-1] / 001008[::-1]',
         '@[0::10]/301011/004001', '@[-2] / 001011[-10]', '001001', '>001001', '/ 103002 > 010009[2] . A03101',
         '@[0] > 302035 / 302004 > 020012', '/', '@/', '/[0]', '/001001[]', '/001001[a]', '/001001[:::]',
         '@[:].001001', '.001001', 'section_length']


def run(tier, seed):
    rep = Report(PID, tier, seed, 'exploration')
    maxlen = 5 if tier == 'quick' else 6
    rep.rule = ('exhaustive: every string of length 0..%d over the 12-symbol alphabet "@[]:/.>-01A " (all distinct); random: '
                'grammar-derived expressions (1..8 components, every slice form, blanks) and 1-2 character insert/delete/'
                'replace mutants; exhaustive again: every slice body of length 0..%d over "-01: A" in three bracket contexts; thorough adds atheris campaigns on the parser with the oracle inside the target.  '
                'Non-trivial = the string holds a bracket or "@".' % (maxlen, 6 if tier == 'quick' else 8))
    rep.assumptions = ['grammar = docs/internals.rst EBNF + the two refinements pinned by tests/test_NodePathParser.py '
                       '(no leading ".", separator may be omitted only at the very start without "@")',
                       'IDs with characters outside [0-9A-Z] and integers only Python int() accepts are "unspecified": '
                       'either outcome tolerated, foreign exception types still forbidden',
                       'slices are compared by their effect on lists of length 0..12, an int index as the query engine applies it']
    workers = runner.tier_workers(tier)
    for path in runner.corpus_files(PID):
        _replay_file(path, rep)
    # exhaustive
    plen = 2
    items = [(''.join(p), maxlen) for p in itertools.product(ALPHABET, repeat=plen)]
    res = runner.run_enumerated(items, enum_prefix, workers, chunk=1)
    verd = {'accept': 0, 'lax': 0, 'reject': 0}
    shorts = short_strings(plen)
    n0 = nt0 = 0
    for s in shorts:
        ref, fl = check_string(s)
        n0 += 1
        nt0 += 1 if nontrivial(s) else 0
        verd[ref.verdict] += 1
        for clause, detail in fl:
            rep.add_failure('exhaustive: ' + clause, detail, {'input': s, 'kind': 'enumerated', 'previous': detail.get('previous')}, stage='enumeration')
    rep.add_bulk(n0, nt0)
    for n, nt, v, fails in res:
        rep.add_bulk(n, nt)
        for k in v:
            verd[k] += v[k]
        for clause, (detail, cnt) in fails.items():
            rep.add_failure('exhaustive: ' + clause, detail, {'input': detail['input'], 'kind': 'enumerated', 'previous': detail.get('previous')}, stage='enumeration')
            rep.failure_counts['exhaustive: ' + clause] += cnt - 1
    for k in verd:
        rep.classes['enumerated_' + k] += verd[k]
    # exhaustive, stage 2: slice bodies (longer than the whole-string enumeration reaches)
    blen = 6 if tier == 'quick' else 8
    n_before = rep.bulk_distinct
    items = [(''.join(p), blen) for p in itertools.product(BODY_ALPHABET, repeat=2)]
    items += [(b, 1) for b in [''] + list(BODY_ALPHABET)]         # bodies shorter than the prefix length
    res = runner.run_enumerated(items, enum_bodies, workers, chunk=1)
    for n, nt, v, fails in res:
        rep.add_bulk(n, nt)
        for k in v:
            rep.classes['slice_body_' + k] += v[k]
        for clause, (detail, cnt) in fails.items():
            rep.add_failure('exhaustive: ' + clause, detail, {'input': detail['input'], 'kind': 'enumerated', 'previous': detail.get('previous')}, stage='slice body enumeration')
            rep.failure_counts['exhaustive: ' + clause] += cnt - 1
    rep.extra['enumerated_slice_bodies'] = {'alphabet': BODY_ALPHABET, 'max_length': blen, 'contexts': [h + '...' + f for h, f in CONTEXTS],
                                            'strings': rep.bulk_distinct - n_before}
    rep.exhaustive = True
    rep.extra['enumerated_strings'] = rep.bulk_distinct
    rep.extra['enumerated_max_length'] = maxlen
    rep.samples.extend([{'input': '@[1:]/0A', 'kind': 'enumerated', 'reference_verdict': pathref.parse('@[1:]/0A').verdict},
                        {'input': '/0[-1', 'kind': 'enumerated', 'reference_verdict': pathref.parse('/0[-1').verdict}])
    # random
    n = 6000 if tier == 'quick' else 200000
    runner.run_generated(rep, gen_case, check_case, n, workers, stage='random')
    rep.required_classes = ['random_verdict_accept', 'random_verdict_reject', 'random_verdict_lax', 'enumerated_accept',
                            'enumerated_reject', 'enumerated_lax']
    if tier == 'thorough':
        fuzz.run_atheris(rep, 'checks.c15', 'fuzz_one', runs=2000000, shards=4, seeds=[s.encode() for s in SEEDS],
                         tag='parser', max_len=48, empty_corpus_shards=2)
    return rep.finish()


def _replay_file(path, rep):
    with open(path) as f:
        d = json.load(f)
    case = StrCase.from_json(d['case'])
    out = check_case(case)
    rep.add_case('replay:' + path, True, ['regression_replay'])
    for clause, detail in out.failures:
        rep.add_failure(clause, detail, d['case'], stage='replay ' + path)
    return bool(out.failures)


def replay(path):
    rep = Report(PID, 'quick', 0)
    bad = _replay_file(path, rep)
    for clause, f in rep.failures.items():
        print('VIOLATION property=%s replay=%s' % (PID, path))
        print('  clause: %s detail: %s' % (clause, json.dumps(runner.jsonable(f['detail']))[:600]))
    if not bad:
        print('replay %s: property holds' % path)
    return 1 if bad else 0
