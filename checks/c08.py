"""C08 -- template compilation preserves behaviour (decode, encode, save/load).

Programs: generated scope-balanced templates with every operator, every sequence of the
bundled Table D (versions >= 19) as a one-descriptor template, the templates of the sample
corpus.  Configurations: compiled-template cache sizes 0, 1, 2, 200, coders reused over
random message orders (eviction), and a manager that passes every compiled template through
its JSON form.  Oracle: the non-compiling coder (differential), plus the reference values."""
import hashlib
import json

from vlib import runner, sut, std, encutil, corpusio, fuzz
from vlib.compare import first_value_diff
from vlib.runner import Outcome, Report, Reject
from gen import messages as gmsg, templates as gtemplates, pool as gpool
from gen.values import GenSource, source_for
from refbufr import frame, codec, tables as rtables, tree as rtree, message as rmessage, IllFormed, Unsupported
from pybufrkit.templatecompiler import CompiledTemplateManager, loads_compiled_template

PID = 'C08'
CACHE_SIZES = [0, 1, 2, 200]


class JsonRoundTripManager(CompiledTemplateManager):
    """every compiled template goes through to_dict -> JSON text -> loads before it is used"""

    def get_or_compile(self, template, table_group):
        ct = CompiledTemplateManager.get_or_compile(self, template, table_group)
        return loads_compiled_template(json.dumps(ct.to_dict()))


def make_coders(cache_max):
    d = {'dec': sut.Decoder(compiled_template_cache_max=cache_max), 'enc': sut.Encoder(compiled_template_cache_max=cache_max),
         'dec_json': sut.Decoder(compiled_template_cache_max=cache_max), 'enc_json': sut.Encoder(compiled_template_cache_max=cache_max)}
    d['dec_json'].compiled_template_manager = JsonRoundTripManager(cache_max)
    d['enc_json'].compiled_template_manager = JsonRoundTripManager(cache_max)
    # a decoder and an encoder that share one manager: the compiled template one of them made (or loaded) is then run by
    # the other kind of coder -- a compiled template does not belong to the coder that compiled it
    d['dec_shared'] = sut.Decoder(compiled_template_cache_max=cache_max)
    d['enc_shared'] = sut.Encoder(compiled_template_cache_max=cache_max)
    d['enc_shared'].compiled_template_manager = d['dec_shared'].compiled_template_manager
    return d


_PLAIN = {}


def plain():
    if not _PLAIN:
        _PLAIN['dec'] = sut.Decoder()
        _PLAIN['enc'] = sut.Encoder()
    return _PLAIN


def outcome_of_decode(dec, b):
    o = sut.call(dec.process, b)
    if not o.ok:
        return ('error', o.exc_type, o.msg, o.frame)
    return ('ok', sut.observe(o.value), o.value.serialized_bytes)


def outcome_of_encode(enc, flat):
    o = sut.call(enc.process, flat)
    if not o.ok:
        return ('error', o.exc_type, o.msg, o.frame)
    ob = sut.observe(o.value)
    return ('ok', {'labels': ob['labels'], 'links': ob['links']}, o.value.serialized_bytes)


def diff_outcomes(a, b):
    """None when the two outcomes are the same behaviour"""
    if a[0] != b[0]:
        return {'plain': a[0] if a[0] == 'ok' else '%s: %s' % (a[1], a[2]), 'compiled': b[0] if b[0] == 'ok' else '%s: %s @%s' % (b[1], b[2], b[3])}
    if a[0] == 'error':
        if a[1] != b[1]:
            return {'plain_error': '%s: %s' % (a[1], a[2]), 'compiled_error': '%s: %s @%s' % (b[1], b[2], b[3])}
        return None
    oa, ob = a[1], b[1]
    if 'values' in oa:
        if len(oa['values']) != len(ob['values']):
            return {'what': 'number of subsets', 'plain': len(oa['values']), 'compiled': len(ob['values'])}
        for i in range(len(oa['values'])):
            d = first_value_diff(ob['values'][i], oa['values'][i], ) if False else _exact_diff(ob['values'][i], oa['values'][i])
            if d is not None:
                return {'what': 'values', 'subset': i, 'index': d[0], 'compiled': d[1], 'plain': d[2]}
    for i in range(len(oa['labels'])):
        if oa['labels'][i] != ob['labels'][i]:
            k = next((j for j, (x, y) in enumerate(zip(oa['labels'][i], ob['labels'][i])) if x != y),
                     min(len(oa['labels'][i]), len(ob['labels'][i])))
            return {'what': 'labels', 'subset': i, 'index': k, 'plain': oa['labels'][i][k:k + 3], 'compiled': ob['labels'][i][k:k + 3]}
        if oa['links'][i] != ob['links'][i]:
            return {'what': 'attribute links', 'subset': i, 'plain': oa['links'][i], 'compiled': ob['links'][i]}
    if a[2] != b[2]:
        return {'what': 'bytes', 'n_plain': len(a[2]), 'n_compiled': len(b[2])}
    return None


def _exact_diff(got, exp):
    if len(got) != len(exp):
        return ('len', len(got), len(exp))
    for i, (g, e) in enumerate(zip(got, exp)):
        if type(g) is not type(e) or g != e:
            return (i, g, e)
    return None


# ---- histories of generated messages ----------------------------------------------------------------
class History(object):
    def __init__(self, cases, order, cache_max):
        self.cases, self.order, self.cache_max = cases, order, cache_max

    def key(self):
        return hashlib.sha1(('|'.join(c.key() for c in self.cases) + repr((self.order, self.cache_max))).encode()).hexdigest()[:20]

    def summary(self):
        return {'cache_max': self.cache_max, 'order': self.order,
                'messages': [{'descriptors': ['%06d' % i for i in c.ids], 'compressed': c.compressed, 'n_subsets': c.nsub,
                              'master_table_version': c.meta['master_table_version']} for c in self.cases]}

    def to_json(self):
        return {'kind': 'history', 'cases': [c.to_json() for c in self.cases], 'order': self.order, 'cache_max': self.cache_max}

    @staticmethod
    def from_json(d):
        return History([gmsg.Case.from_json(c) for c in d['cases']], list(d['order']), d['cache_max'])


def gen_history(ch, opts):
    n = ch.weighted([(2, 1), (3, 2), (3, 3), (1, 4)])
    cases = []
    for i in range(n):
        if cases and ch.bool(1, 4):
            # same template, other data / other compression: the cached program must serve both
            base = ch.choice(cases)
            try:
                meta = dict(base.meta)
                meta['is_compressed'] = ch.bool(2, 5)
                meta['n_subsets'] = ch.int(1, opts.max_subsets)
                c = gmsg.Case()
                c.meta, c.ids, c.tables = meta, list(base.ids), base.tables
                c.tree = rtree.parse(c.ids, c.tables)
                src = source_for(ch, base.features)
                c.decoded = codec.walk_all(c.tree, c.tables, meta['n_subsets'], meta['is_compressed'], lambda k: src)
                if c.decoded.ambiguous():
                    raise Reject('ambiguous')
                c.features = set(base.features) | c.decoded.features() | {'same_template_other_data'}
                gmsg.build_bytes(c)
                cases.append(c)
                continue
            except (IllFormed, Unsupported) as e:
                raise Reject('illformed: %s' % e)
        if cases and ch.bool(1, 4):
            # a near twin: the same unexpanded list except for one element inside a replication body, so that
            # the two templates agree on their top-level descriptors
            base = ch.choice(cases)
            inner = []

            def collect(nodes, inside):
                for nd in nodes:
                    if nd.t in ('R', 'D'):
                        collect(nd.members, True)
                    elif nd.t == 'E' and inside and nd.src is not None and nd.id // 1000 not in (31, 33) \
                            and nd.elem.kind == 'num':
                        inner.append(nd)
            collect(base.tree, False)
            if inner:
                nd = ch.choice(inner)
                pl = gpool.pool_for(base.meta['master_table_version'], base.meta['originating_centre'] if base.meta['local_table_version'] else 0,
                                    base.meta['originating_subcentre'] if base.meta['local_table_version'] else 0,
                                    base.meta['local_table_version'])
                ids = list(base.ids)
                ids[nd.src] = ch.choice(pl.num_all)
                if ids != base.ids:
                    try:
                        meta = dict(base.meta)
                        c = gmsg.Case()
                        c.meta, c.ids, c.tables = meta, ids, base.tables
                        c.tree = rtree.parse(c.ids, c.tables)
                        src = source_for(ch, base.features)
                        c.decoded = codec.walk_all(c.tree, c.tables, meta['n_subsets'], meta['is_compressed'], lambda k: src)
                        if c.decoded.ambiguous():
                            raise Reject('ambiguous')
                        c.features = c.decoded.features() | {'near_twin_template'} | ({'all_bits_zero'} & set(base.features))
                        gmsg.build_bytes(c)
                        cases.append(c)
                        continue
                    except (IllFormed, Unsupported) as e:
                        raise Reject('illformed: %s' % e)
        cases.append(gmsg.gen_case(ch, opts))
    for c in cases:
        if c.decoded.unbalanced():
            raise Reject('an operator scope crosses a replication boundary')
    m = ch.int(max(2, n), 8)
    order = [ch.int(0, n - 1) for _ in range(m)]
    for i in range(n):
        if i not in order:
            order[ch.int(0, m - 1)] = i
    cache_max = ch.choice(CACHE_SIZES)
    return History(cases, order, cache_max)


def check_history(h):
    out = Outcome()
    feats = set()
    for c in h.cases:
        feats |= set(c.features)
    n_templates = len(set((tuple(c.ids), c.meta['master_table_version'], c.meta['local_table_version']) for c in h.cases))
    evict = h.cache_max in (1, 2) and n_templates > h.cache_max
    out.classes = ['cache_%d' % h.cache_max] + sorted('op_' + f for f in feats if f[:3].isdigit() or f in (
        'fixed_rep', 'delayed_rep', 'nested_rep', 'zero_rep', 'sequence', 'bitmap', 'same_template_other_data', 'near_twin_template', 'bitmap_in_rep'))
    if evict:
        out.classes.append('eviction')
    out.nontrivial = any(f in feats for f in ('fixed_rep', 'delayed_rep')) or any(f[:3].isdigit() for f in feats)
    coders = make_coders(h.cache_max)
    base_dec = {}
    base_enc = {}
    flats = {}
    for step, i in enumerate(h.order):
        c = h.cases[i]
        if i not in base_dec:
            base_dec[i] = outcome_of_decode(plain()['dec'], c.bytes)
            flats[i] = encutil.flat_json_of_case(c)
            base_enc[i] = outcome_of_encode(plain()['enc'], flats[i])
            # anchor: the non-compiling decoder itself gives the reference values (so "both wrong the same way" cannot pass)
            if base_dec[i][0] == 'ok':
                for s in range(c.nsub):
                    d = first_value_diff(base_dec[i][1]['values'][s], c.values()[s])
                    if d is not None:
                        out.fail('non-compiling decoder differs from the reference values', message=i, subset=s, index=d[0])
                        break
        for name in ('dec', 'dec_json'):
            got = outcome_of_decode(coders[name], c.bytes)
            d = diff_outcomes(base_dec[i], got)
            if d is not None:
                out.fail('decoding with template compilation%s differs from decoding without (%s)' % (
                    ' after a JSON save/load' if name == 'dec_json' else '', d.get('what', 'outcome')),
                    step=step, message=i, cache_max=h.cache_max, difference=d, descriptors=c.ids)
                return out
        for name in ('enc', 'enc_json'):
            got = outcome_of_encode(coders[name], flats[i])
            d = diff_outcomes(base_enc[i], got)
            if d is not None:
                out.fail('encoding with template compilation%s differs from encoding without (%s)' % (
                    ' after a JSON save/load' if name == 'enc_json' else '', d.get('what', 'outcome')),
                    step=step, message=i, cache_max=h.cache_max, difference=d, descriptors=c.ids)
                return out
        # one compiled template object run by both kinds of coder, in either order
        for name in (('dec_shared', 'enc_shared') if step % 2 == 0 else ('enc_shared', 'dec_shared')):
            if name == 'dec_shared':
                d = diff_outcomes(base_dec[i], outcome_of_decode(coders[name], c.bytes))
            else:
                d = diff_outcomes(base_enc[i], outcome_of_encode(coders[name], flats[i]))
            if d is not None:
                verb = 'decoding' if name == 'dec_shared' else 'encoding'
                out.fail('a compiled template shared by a decoder and an encoder: %s differs from %s without compilation (%s)' % (
                    verb, verb, d.get('what', 'outcome')),
                    step=step, message=i, cache_max=h.cache_max, difference=d, descriptors=c.ids,
                    order='decoder first' if step % 2 == 0 else 'encoder first')
                return out
    return out


# ---- Table D programs ---------------------------------------------------------------------------------
NEUTRAL_PAIRS = {201, 202, 207, 208}


def body_is_neutral(nodes):
    """static, conservative: may a replication body with these members leave the operator registers changed?"""
    open_ops = {}
    depth204 = 0
    pending206 = False
    for nd in _expanded(nodes):
        if nd.t == 'O':
            code, y = nd.id // 1000, nd.id % 1000
            if code in NEUTRAL_PAIRS:
                open_ops[code] = y != 0
            elif code == 204:
                depth204 += 1 if y else -1
            elif code == 205:
                pass
            elif code == 206:
                pending206 = True
                continue
            else:
                return False          # 203, 221, bitmap / marker operators, 241-243: not decided statically
        pending206 = False
    return not any(open_ops.values()) and depth204 == 0 and not pending206


def _expanded(nodes):
    for nd in nodes:
        if nd.t == 'S':
            for x in _expanded(nd.members):
                yield x
        elif nd.t in ('R', 'D'):
            if nd.t == 'D':
                yield nd.factor
            # a neutral nested body contributes nothing; a non-neutral one is caught on its own
            continue
        else:
            yield nd


def all_bodies_neutral(nodes):
    for nd in nodes:
        if nd.t in ('R', 'D'):
            # replications of bitmap bits / class-33 values are handled by the compiler by design
            if not body_is_neutral(nd.members) or not all_bodies_neutral(nd.members):
                return False
        elif nd.t == 'S':
            if not all_bodies_neutral(nd.members):
                return False
    return True


class ProgramCase(object):
    def __init__(self, sel, sid, bytes_, note, flat=None):
        self.sel, self.sid, self.bytes, self.note, self.flat = sel, sid, bytes_, note, flat

    def key(self):
        return hashlib.sha1(self.bytes).hexdigest()[:20]

    def summary(self):
        return {'table_d_sequence': '%06d' % self.sid, 'master_table_version': self.sel, 'data': self.note, 'n_bytes': len(self.bytes)}

    def to_json(self):
        return {'kind': 'program', 'sel': self.sel, 'sid': self.sid, 'bytes_hex': self.bytes.hex(), 'note': self.note,
                'flat': self.flat}

    @staticmethod
    def from_json(d):
        return ProgramCase(d['sel'], d['sid'], bytes.fromhex(d['bytes_hex']), d['note'], d.get('flat'))


def check_program_item(item):
    """item = (master version, sequence id, seed) -> (case or None, Outcome or None, exclusion)"""
    mv, sid, seed = item
    from vlib.choose import Chooser
    rt = rtables.load_for(0, 0, 0, mv, 0)
    meta = frame.default_meta(4)
    meta['master_table_version'] = mv
    h = int(hashlib.sha1(('%d/%d/%d' % (mv, sid, seed)).encode()).hexdigest()[:12], 16)
    meta['is_compressed'] = bool(h & 1)
    meta['n_subsets'] = 1 + (h >> 1) % 3
    try:
        tree = rtree.parse([sid], rt)
    except IllFormed:
        return None, None, 'Table D entry ill-formed for the reference'
    if not all_bodies_neutral(tree):
        return None, None, 'operator scope crosses a replication boundary (outside the property)'
    flat = None
    note = 'reference-generated'
    try:
        ch = Chooser(replay=[(h >> (k % 40)) & 0xffff for k in range(4000)])
        src = GenSource(ch, max_factor=3)
        dec = codec.walk_all(tree, rt, meta['n_subsets'], meta['is_compressed'], lambda i: src)
        if dec.ambiguous():
            raise Unsupported('ambiguous')
        if max(len(w.fields) for w in dec.subsets) > 3000:
            return None, None, 'too large'
        bits = codec.data_bits(dec, None)
        b = frame.build(meta, [sid], bits)[0]
        vals = [dec.values_of(i) for i in range(meta['n_subsets'])]
        flat = rmessage.flat_json(meta, [sid], [[encutil.to_text(v) for v in row] for row in vals])
    except (IllFormed, Unsupported, RecursionError) as e:
        # the reference cannot feed it: random bits, oracle "same outcome"
        note = 'random bits (%s)' % str(e)[:40]
        nbits = 4000
        bits = ''.join(format(c, '08b') for c in hashlib.sha512(('%d' % h).encode()).digest() * 8)[:nbits]
        b = frame.build(meta, [sid], bits)[0]
    case = ProgramCase(mv, sid, b, note, flat)
    return case, check_program(case), None


_PROG_CODERS = {}


def check_program(case):
    out = Outcome()
    out.nontrivial = True
    out.classes = ['table_d_program', 'table_d_' + ('random_bits' if case.note.startswith('random') else 'reference_data')]
    if 'c' not in _PROG_CODERS:
        _PROG_CODERS['c'] = make_coders(2)
    coders = _PROG_CODERS['c']
    base = outcome_of_decode(plain()['dec'], case.bytes)
    if base[0] == 'ok':
        out.classes.append('table_d_decodes')
    for name in ('dec', 'dec_json'):
        got = outcome_of_decode(coders[name], case.bytes)
        d = diff_outcomes(base, got)
        if d is not None:
            out.fail('Table D program: decoding with template compilation%s differs (%s)' % (
                ' after a JSON save/load' if name == 'dec_json' else '', d.get('what', 'outcome')),
                sequence=case.sid, master_table_version=case.sel, difference=d)
            return out
    if case.flat is not None:
        basee = outcome_of_encode(plain()['enc'], case.flat)
        for name in ('enc', 'enc_json'):
            got = outcome_of_encode(coders[name], case.flat)
            d = diff_outcomes(basee, got)
            if d is not None:
                out.fail('Table D program: encoding with template compilation%s differs (%s)' % (
                    ' after a JSON save/load' if name == 'enc_json' else '', d.get('what', 'outcome')),
                    sequence=case.sid, master_table_version=case.sel, difference=d)
                return out
    return out


# ---- corpus ---------------------------------------------------------------------------------------------
_CORPUS_CODERS = {}


def check_corpus(item):
    f, j, b = item
    from checks.c01 import CorpusCase
    cc = CorpusCase(f, j, b)
    out = Outcome()
    out.nontrivial = True
    out.classes = ['corpus']
    try:
        rm = rmessage.decode(b, strict_padding=False)
        if not all_bodies_neutral(rm.tree) or rm.decoded.unbalanced():
            return cc, None, 'operator scope crosses a replication boundary'
    except (Unsupported, IllFormed):
        pass      # still compared: same outcome
    if 'c' not in _CORPUS_CODERS:
        _CORPUS_CODERS['c'] = make_coders(2)
    coders = _CORPUS_CODERS['c']
    base = outcome_of_decode(plain()['dec'], b)
    for name in ('dec', 'dec_json'):
        d = diff_outcomes(base, outcome_of_decode(coders[name], b))
        if d is not None:
            out.fail('corpus: decoding with template compilation%s differs (%s)' % (
                ' after a JSON save/load' if name == 'dec_json' else '', d.get('what', 'outcome')), difference=d)
            return cc, out, None
    if base[0] == 'ok':
        o = sut.call(lambda: sut.norm_json(sut.FlatJsonRenderer().render(plain()['dec'].process(b))))
        if o.ok:
            basee = outcome_of_encode(plain()['enc'], o.value)
            for name in ('enc', 'enc_json'):
                d = diff_outcomes(basee, outcome_of_encode(coders[name], o.value))
                if d is not None:
                    out.fail('corpus: encoding with template compilation%s differs (%s)' % (
                        ' after a JSON save/load' if name == 'enc_json' else '', d.get('what', 'outcome')), difference=d)
                    return cc, out, None
    return cc, out, None


# ---- templates whose reading FM-94 leaves open: the library's own reading, compiled against not compiled ------------
class LibCase(object):
    """A template the reference model does not build bytes for (DESIGN 10-2: a class 31 replication factor inside an open
    201 / 202 / 207 scope, 205 / 206 inside an open 204 scope).  The two paths of the library must still agree on it: the
    flat values are laid out by the harness for the library's reading, the non-compiling encoder makes the bytes."""

    def __init__(self, mv, ids, rows, compressed, form):
        self.mv, self.ids, self.rows, self.compressed, self.form = mv, ids, rows, compressed, form

    def key(self):
        return hashlib.sha1(repr((self.mv, self.ids, self.rows, self.compressed)).encode()).hexdigest()[:20]

    def summary(self):
        return {'master_table_version': self.mv, 'descriptors': ['%06d' % i for i in self.ids], 'compressed': self.compressed,
                'n_subsets': len(self.rows), 'form': self.form, 'values_subset0': self.rows[0][:12]}

    def to_json(self):
        return {'kind': 'library_reading', 'mv': self.mv, 'ids': self.ids, 'rows': self.rows, 'compressed': self.compressed,
                'form': self.form}

    @staticmethod
    def from_json(d):
        return LibCase(d['mv'], list(d['ids']), d['rows'], d['compressed'], d.get('form', ''))

    def flat(self):
        meta = frame.default_meta(4)
        meta.update({'master_table_version': self.mv, 'n_subsets': len(self.rows), 'is_compressed': self.compressed})
        return rmessage.flat_json(meta, self.ids, self.rows)


def _lib_value(el, ds=0, y=0, raw=1):
    """the user value whose raw is `raw` for a numeric element under a 202 scale change ds and a 207YYY of y"""
    from fractions import Fraction
    scale = el.scale + ds + y
    v = Fraction(raw + el.ref * 10 ** y) / Fraction(10) ** scale
    return int(v) if scale == 0 and v.denominator == 1 else float(v)


def gen_lib_case(ch):
    mv = ch.choice(gmsg.QUICK_VERSIONS)
    pl = gpool.pool_for(mv)
    B = pl.tables.B
    nsub = ch.int(1, 3)
    compressed = ch.bool(2, 5)
    form = ch.weighted([(3, 'replication_under_operator'), (1, '205_206_under_204')])
    if form == 'replication_under_operator':
        op = ch.weighted([(3, '201'), (2, '202'), (2, '207')])
        dw = ds = y = 0
        if op == '201':
            dw = ch.choice([1, 2, 8, 4])
            open_, close = 201000 + 128 + dw, 201000
        elif op == '202':
            ds = ch.choice([1, 2])
            open_, close = 202000 + 128 + ds, 202000
        else:
            y = ch.int(1, 3)
            open_, close = 207000 + y, 207000
        factor = ch.weighted([(3, 31001), (1, 31000), (1, 31002)])
        body = [ch.choice(pl.num_all) for _ in range(ch.int(1, 3))]
        pre = [ch.choice(pl.num_all)] if ch.bool(1, 3) else []
        inner_pre = [ch.choice(pl.num_all)] if ch.bool(1, 3) else []
        post = [ch.choice(pl.num_all)] if ch.bool(1, 3) else []
        fixed = ch.bool(1, 4)
        if fixed:
            k_all = [ch.int(1, 3)] * nsub
            rep = [100000 + len(body) * 1000 + k_all[0]]
        else:
            kmax = 1 if factor == 31000 else 3
            k0 = ch.int(0, kmax)
            k_all = [k0 if compressed else ch.int(0, kmax) for _ in range(nsub)]
            rep = [100000 + len(body) * 1000, factor]
        ids = pre + [open_] + inner_pre + rep + body + [close] + post
        rows = []
        for j in range(nsub):
            raw = ch.int(0, 3)
            row = [_lib_value(B[e], raw=raw) for e in pre]
            row += [_lib_value(B[e], ds, y, raw) for e in inner_pre]
            if not fixed:
                row.append(k_all[j])
            row += [_lib_value(B[e], ds, y, raw) for e in body] * k_all[j]
            row += [_lib_value(B[e], raw=raw) for e in post]
            rows.append(row)
    else:
        yy = ch.int(1, 8)
        e1, e2 = ch.choice(pl.num_all), ch.choice(pl.num_all)
        nb = ch.int(1, 4)
        w = ch.int(1, 12)
        local = ch.choice(sorted(pl.local_undefined)) if pl.local_undefined else 63255
        ids = [204000 + yy, 31021, e1, 205000 + nb, 206000 + w, local, e2, 204000]
        rows = []
        for j in range(nsub):
            a = ch.int(0, (1 << yy) - 2) if yy > 1 else ch.int(0, 1)
            rows.append([1, a, _lib_value(B[e1]), 'ab'[:nb].ljust(nb), ch.int(0, max(0, (1 << w) - 2)), a, _lib_value(B[e2])])
    return LibCase(mv, ids, rows, compressed, form)


_LIB_CODERS = {}


def check_lib_case(lc):
    out = Outcome()
    out.nontrivial = True
    out.classes = ['library_reading', 'library_reading_' + lc.form, 'compressed' if lc.compressed else 'uncompressed']
    if 'c' not in _LIB_CODERS:
        _LIB_CODERS['c'] = make_coders(2)
    coders = _LIB_CODERS['c']
    flat = lc.flat()
    basee = outcome_of_encode(plain()['enc'], flat)
    if basee[0] != 'ok':
        out.classes.append('library_reading_plain_encoder_refuses')
    for name in ('enc', 'enc_json'):
        d = diff_outcomes(basee, outcome_of_encode(coders[name], flat))
        if d is not None:
            out.fail("library's reading: encoding with template compilation%s differs (%s)" % (
                ' after a JSON save/load' if name == 'enc_json' else '', d.get('what', 'outcome')), difference=d, descriptors=lc.ids)
            return out
    if basee[0] == 'ok':
        b = basee[2]
        based = outcome_of_decode(plain()['dec'], b)
        if based[0] == 'ok':
            out.classes.append('library_reading_decodes')
        for name in ('dec', 'dec_json'):
            d = diff_outcomes(based, outcome_of_decode(coders[name], b))
            if d is not None:
                out.fail("library's reading: decoding with template compilation%s differs (%s)" % (
                    ' after a JSON save/load' if name == 'dec_json' else '', d.get('what', 'outcome')), difference=d, descriptors=lc.ids)
                return out
    return out


def load_case(d):
    if d.get('kind') == 'library_reading':
        return LibCase.from_json(d)
    if d.get('kind') == 'program':
        return ProgramCase.from_json(d)
    if d.get('kind') == 'history':
        return History.from_json(d)
    # a single message (e.g. a replay file of another check): a history of length 2 with cache 1
    return History([gmsg.Case.from_json(d)], [0, 0], 1)


def check_any(case):
    if isinstance(case, LibCase):
        return check_lib_case(case)
    if isinstance(case, ProgramCase):
        return check_program(case)
    return check_history(case)


def gen_opts(tier):
    opts = gmsg.GenOpts(tier)
    opts.template = gtemplates.Opts(max_ids=16 if tier == 'quick' else 30, balanced_only=True, allow_unclosed=False)
    opts.max_subsets = 3
    opts.extra_widths = False
    return opts


# ---- coverage-guided stage: the same generator and oracle, decisions taken from fuzzer bytes (vlib.fuzz) ----
_FUZZ_OPTS = gen_opts('quick')


def _fuzz_gen(ch):
    return gen_history(ch, _FUZZ_OPTS)


fuzz_case = fuzz.structured_target(_fuzz_gen, check_history)


def run(tier, seed):
    rep = Report(PID, tier, seed, 'exploration')
    rep.rule = ('generated histories: 1..4 scope-balanced messages with every operator (incl. the same template with other data / other '
                'compression) visited in a random order of 2..8 steps by coders with compiled-template cache size in {0,1,2,200} and by '
                'coders whose compiled templates pass through JSON save/load; at every step decode (values, labels, links, bytes or the '
                'error class) and encode (bytes, labels, links or the error class) are compared with a non-compiling coder, which is '
                'itself anchored to the reference values.  Table D programs: every sequence of the bundled master versions >= 19 '
                '(quick: a stratified sample) as a one-descriptor template on reference-generated data or, where the reference cannot '
                'feed it, on random bits (same outcome).  Corpus: sample files.  Non-trivial = the program has a replication or an operator.')
    rep.assumptions = ['domain = operators opened and closed within one replication scope: generated templates by construction; Table D / '
                       'corpus programs decided by a conservative static rule + the reference walker, others excluded and counted',
                       'differential oracle (compiled vs not compiled), anchored to refbufr values for generated messages']
    workers = runner.tier_workers(tier)
    std.replay_files(rep, PID, check_any, load_case)
    # the regression inputs of other properties that were found through compilation
    for pid in ('C10',):
        for path in runner.corpus_files(pid):
            d = json.load(open(path))
            c = d['case'].get('case') if isinstance(d['case'], dict) and 'case' in d['case'] else None
            if c and 'ids' in c:
                h = History([gmsg.Case.from_json(c)], [0, 0], 1)
                o = check_history(h)
                rep.add_case('replay:' + path, True, ['regression_replay'])
                for clause, detail in o.failures:
                    rep.add_failure(clause, detail, h.to_json(), stage='replay ' + path)
    opts = gen_opts(tier)
    n = 1200 if tier == 'quick' else 60000
    runner.run_generated(rep, lambda ch: gen_history(ch, opts), check_history, n, workers, stage='histories')
    # templates FM-94 leaves open, in the library's own reading (compiled against not compiled only)
    runner.run_generated(rep, gen_lib_case, check_lib_case, 600 if tier == 'quick' else 20000, workers, stage='library reading')
    # Table D programs
    versions = [v for v in rtables.available_master_versions() if v >= 19]
    items = []
    for mv in versions:
        rt = rtables.load_for(0, 0, 0, mv, 0)
        sids = sorted(rt.D)
        if tier == 'quick':
            sids = [s for k, s in enumerate(sids) if (k + seed + mv) % 9 == 0]
        for s in sids:
            for rnd in range(1 if tier == 'quick' else 3):
                items.append((mv, s, rnd))
    res = runner.run_enumerated(items, check_program_item, workers, chunk=25)
    std.add_results(rep, [(c, o, e) for c, o, e in res if c is not None or e], 'table D') if False else None
    for c, o, e in res:
        if e:
            rep.excluded['table D: ' + e] += 1
            continue
        rep.add_case(c.key(), o.nontrivial, o.classes, c.summary() if len(rep.samples) < 8 else None)
        for clause, detail in o.failures:
            rep.add_failure(clause, detail, c.to_json(), stage='table D')
    rep.extra['table_d_programs'] = len(items)
    rep.extra['table_d_versions'] = versions
    # corpus
    stride = 25 if tier == 'quick' else 1
    items = corpusio.messages(stride=stride, offset=seed)
    res = runner.run_enumerated(items, check_corpus, workers, chunk=3)
    std.add_results(rep, res, 'corpus')
    rep.required_classes = ['cache_0', 'cache_1', 'cache_2', 'cache_200', 'eviction', 'op_201', 'op_202', 'op_203_applied', 'op_204',
                            'op_205', 'op_206', 'op_207', 'op_208', 'op_221_skipped', 'op_222_qa', 'op_223255', 'op_224255',
                            'op_225255', 'op_232255', 'op_235', 'op_236', 'op_237000', 'op_237255', 'op_zero_rep', 'op_nested_rep',
                            'op_same_template_other_data', 'op_near_twin_template', 'op_bitmap_in_rep', 'table_d_program', 'table_d_decodes', 'corpus',
                            'library_reading_replication_under_operator', 'library_reading_205_206_under_204', 'library_reading_decodes']
    # hand-laid-out messages whose subsets share their layout while their bitmaps select other elements (the marker labels
    # differ from subset to subset), and templates that end inside an operator scope: compiled against not compiled
    for name, c in gmsg.same_shape_other_bitmap_cases():
        if c.decoded.unbalanced():
            continue
        for cache_max in (0, 2):
            h = History([c], [0, 0], cache_max)
            out = check_history(h)
            rep.add_case('named:%s:%d' % (name, cache_max), True, ['same_descriptors_other_bitmap'], None)
            for clause, detail in out.failures:
                rep.add_failure('same descriptors, other bitmap (%s): %s' % (name, clause), detail, h.to_json(), stage='hand-laid-out')
    fuzz.run_structured(rep, 'checks.c08', _fuzz_gen, tier)
    return rep.finish()


def replay(path):
    with open(path) as f:
        d = json.load(f)
    if 'corpus_file' in d['case']:
        c = d['case']
        cc, out, excl = check_corpus((c['corpus_file'], c['message_index'], bytes.fromhex(c['bytes_hex'])))
        fails = out.failures if out else []
        for clause, detail in fails:
            print('VIOLATION property=%s replay=%s' % (PID, path))
            print('  clause: %s detail: %s' % (clause, json.dumps(runner.jsonable(detail))[:600]))
        return 1 if fails else 0
    return std.replay_main(PID, path, check_any, load_case)
