"""Field sources (read / given) and the data-section writers of the reference model."""
from . import IllFormed
from .bits import BitWriter
from .walker import Walk, all_ones


# ---------------------------------------------------------------------------------------
# sources
class GivenSource(object):
    """Leaves are taken from a supplied list of raw columns (reference *encoder* side and
    re-walks of a generated case)."""

    def __init__(self, columns):
        self.columns = columns
        self.i = 0

    def leaf(self, walk, field):
        if field.kind == 'const':
            return [0] * walk.nsub
        if self.i >= len(self.columns):
            raise IllFormed('ran out of given values')
        col = self.columns[self.i]
        self.i += 1
        return list(col)


class ReadSource(object):
    """Leaves are read from a bit stream (reference *decoder*)."""

    def __init__(self, reader, compressed):
        self.r = reader
        self.compressed = compressed
        self.notes = []

    def leaf(self, walk, field):
        n = walk.nsub
        if field.kind == 'const':
            return [0] * n
        r = self.r
        if not self.compressed:
            if field.kind == 'str':
                return [r.raw_bytes(field.nbits // 8)]
            if field.kind == 'refval':
                return [r.sint(field.nbits)]
            return [r.uint(field.nbits)]
        # compressed column: minimum, 6-bit width, increments
        if field.kind == 'str':
            nbytes = field.nbits // 8
            base = r.raw_bytes(nbytes)
            w = r.uint(6)
            if w == 0:
                field.comp = (base, 0, None)
                return [base] * n
            incs = [r.raw_bytes(w) for _ in range(n)]
            field.comp = (base, w, incs)
            if base != b'\0' * nbytes:
                self.notes.append('character column with non-zero base and increments')
                return [base + i for i in incs]
            if w != nbytes:
                self.notes.append('character column with increments narrower than the field')
            return incs
        if field.kind == 'refval':
            v = r.sint(field.nbits)
            w = r.uint(6)
            if w != 0:
                raise IllFormed('new reference values must be identical in all subsets')
            field.comp = (v, 0, None)
            return [v] * n
        mn = r.uint(field.nbits)
        w = r.uint(6)
        if w == 0:
            field.comp = (mn, 0, None)
            return [mn] * n
        if field.nbits > 1 and mn == all_ones(field.nbits):
            raise IllFormed('all-missing minimum with a non-zero difference width')
        diffs = [r.uint(w) for _ in range(n)]
        field.comp = (mn, w, diffs)
        out = []
        for d in diffs:
            if d == all_ones(w):
                if field.nbits == 1:
                    raise IllFormed('missing entry in a 1-bit column')
                out.append(all_ones(field.nbits))
            else:
                v = mn + d
                if v >> field.nbits:
                    raise IllFormed('minimum + difference does not fit the field')
                if field.nbits > 1 and v == all_ones(field.nbits):
                    # the sum is the field's all-ones pattern: missing.  For a numeric element FM-94 leaves open whether
                    # a producer may write a missing entry this way (the library returns the number): noted as ambiguous
                    if field.kind == 'num':
                        self.notes.append('numeric entry whose minimum + difference is the all-ones pattern')
                out.append(v)
        return out


# ---------------------------------------------------------------------------------------
# writers
def write_raw(w, field, raw):
    if field.kind == 'const':
        return
    if field.kind == 'str':
        if len(raw) * 8 != field.nbits:
            raise ValueError('string raw of wrong length')
        w.raw_bytes(raw)
    elif field.kind == 'refval':
        w.sint(raw, field.nbits)
    else:
        w.uint(raw, field.nbits)


def minimal_diff_width(field, raws):
    """(all_equal, minimum, minimal width) of a numeric/code column"""
    present = [x for x in raws if not field.is_missing_raw(x)]
    if not present:
        return True, all_ones(field.nbits), 0
    if len(present) == len(raws) and min(present) == max(present):
        return True, present[0], 0
    mn, mx = min(present), max(present)
    rng = mx - mn
    w = 1
    while rng > (1 << w) - 2:   # all ones of the width are reserved for "missing"
        w += 1
    return False, mn, w


def write_column(w, field, raws, extra_width=0, ones_by_sum=False):
    """One compressed column.  extra_width widens the difference field beyond the minimal
    legal width (any width that holds the differences is legal).  ones_by_sum: a missing entry of a column that is not
    missing throughout is written as the difference that makes minimum + difference the field's all-ones pattern
    (the difference itself is not all ones)."""
    if field.kind == 'const':
        return
    if field.kind == 'str':
        nbytes = field.nbits // 8
        if all(x == raws[0] for x in raws):
            w.raw_bytes(raws[0])
            w.uint(0, 6)
        else:
            w.raw_bytes(b'\0' * nbytes)
            w.uint(nbytes, 6)
            for x in raws:
                w.raw_bytes(x)
        return
    if field.kind == 'refval':
        if any(x != raws[0] for x in raws):
            raise ValueError('refval column must be constant')
        w.sint(raws[0], field.nbits)
        w.uint(0, 6)
        return
    eq, mn, width = minimal_diff_width(field, raws)
    w.uint(mn, field.nbits)
    if eq:
        w.uint(0, 6)
        return
    if ones_by_sum and field.nbits > 1 and any(field.is_missing_raw(x) for x in raws):
        top = all_ones(field.nbits) - mn
        while top > (1 << width) - 2:
            width += 1
        if width > 63:
            raise IllFormed('column needs a %d-bit difference: not representable in compressed form' % width)
        width = min(63, width + extra_width)
        w.uint(width, 6)
        for x in raws:
            w.uint(x - mn, width)        # a missing raw *is* the all-ones pattern
        return
    if width > 63:
        raise IllFormed('column needs a %d-bit difference: not representable in compressed form' % width)
    width = min(63, width + extra_width)
    w.uint(width, 6)
    for x in raws:
        if field.is_missing_raw(x):
            w.uint(all_ones(width), width)
        else:
            w.uint(x - mn, width)


def data_bits_uncompressed(subset_fields):
    """subset_fields: one field list per subset (each walked with nsub == 1)"""
    w = BitWriter()
    for fields in subset_fields:
        for f in fields:
            write_raw(w, f, f.raws[0])
    return w.bitstring()


def data_bits_compressed(fields, extra_widths=None, ones_by_sum=None):
    w = BitWriter()
    for i, f in enumerate(fields):
        write_column(w, f, f.raws, extra_widths[i] if extra_widths else 0, bool(ones_by_sum and ones_by_sum[i]))
    return w.bitstring()


# ---------------------------------------------------------------------------------------
# convenience: walk a whole data section
class Decoded(object):
    """Result of a reference walk over all subsets of a message."""

    def __init__(self):
        self.subsets = []     # one Walk per subset (uncompressed) or a single Walk (compressed)
        self.compressed = False
        self.nsub = 0

    def fields_of(self, i):
        return self.subsets[0].fields if self.compressed else self.subsets[i].fields

    def links_of(self, i):
        return self.subsets[0].links if self.compressed else self.subsets[i].links

    def struct_of(self, i):
        return self.subsets[0].root if self.compressed else self.subsets[i].root

    def raw(self, i, k):
        f = self.fields_of(i)[k]
        return f.raws[i] if self.compressed else f.raws[0]

    def values_of(self, i):
        if self.compressed:
            return [f.value(f.raws[i]) for f in self.subsets[0].fields]
        return [f.value(f.raws[0]) for f in self.subsets[i].fields]

    def labels_of(self, i):
        return [f.label for f in self.fields_of(i)]

    def features(self):
        s = set()
        for w in self.subsets:
            s |= w.features
        return s

    def ambiguous(self):
        out = []
        for w in self.subsets:
            out.extend(w.ambiguous)
            if hasattr(w.src, 'notes'):
                out.extend(w.src.notes)
        return out

    def unbalanced(self):
        return any(w.unbalanced for w in self.subsets)


def walk_all(tree, tables, nsub, compressed, make_source):
    """make_source(i) -> source for subset i (uncompressed) or for the whole (compressed)"""
    d = Decoded()
    d.compressed = compressed
    d.nsub = nsub
    if compressed:
        wk = Walk(make_source(0), nsub, tables)
        wk.members(tree)
        d.subsets.append(wk)
    else:
        for i in range(nsub):
            wk = Walk(make_source(i), 1, tables)
            wk.members(tree)
            d.subsets.append(wk)
    return d


def read_data(tree, tables, nsub, compressed, reader):
    src = ReadSource(reader, compressed)
    return walk_all(tree, tables, nsub, compressed, lambda i: src)


def data_bits(decoded, extra_widths=None, ones_by_sum=None):
    if decoded.compressed:
        return data_bits_compressed(decoded.subsets[0].fields, extra_widths, ones_by_sum)
    return data_bits_uncompressed([w.fields for w in decoded.subsets])
