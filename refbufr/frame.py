"""Sections 0-5 for editions 2, 3 and 4: builder, strict parser, and the positional
parameter lists (the shape of the flat JSON the encoder takes)."""
from . import IllFormed
from .bits import BitWriter, BitReader, bits_to_bytes

# (name, nbits, type) by octet layout of FM-94; the names are the public parameter names.
SECTION1 = {
    2: [('section_length', 24, 'uint'), ('master_table_number', 8, 'uint'),
        ('originating_centre', 16, 'uint'), ('update_sequence_number', 8, 'uint'),
        ('is_section2_presents', 1, 'bool'), ('flag_bits', 7, 'bin'),
        ('data_category', 8, 'uint'), ('data_local_subcategory', 8, 'uint'),
        ('master_table_version', 8, 'uint'), ('local_table_version', 8, 'uint'),
        ('year', 8, 'uint'), ('month', 8, 'uint'), ('day', 8, 'uint'), ('hour', 8, 'uint'),
        ('minute', 8, 'uint'), ('second', 8, 'uint')],
    3: [('section_length', 24, 'uint'), ('master_table_number', 8, 'uint'),
        ('originating_subcentre', 8, 'uint'), ('originating_centre', 8, 'uint'),
        ('update_sequence_number', 8, 'uint'),
        ('is_section2_presents', 1, 'bool'), ('flag_bits', 7, 'bin'),
        ('data_category', 8, 'uint'), ('data_local_subcategory', 8, 'uint'),
        ('master_table_version', 8, 'uint'), ('local_table_version', 8, 'uint'),
        ('year', 8, 'uint'), ('month', 8, 'uint'), ('day', 8, 'uint'), ('hour', 8, 'uint'),
        ('minute', 8, 'uint'), ('second', 8, 'uint')],
    4: [('section_length', 24, 'uint'), ('master_table_number', 8, 'uint'),
        ('originating_centre', 16, 'uint'), ('originating_subcentre', 16, 'uint'),
        ('update_sequence_number', 8, 'uint'),
        ('is_section2_presents', 1, 'bool'), ('flag_bits', 7, 'bin'),
        ('data_category', 8, 'uint'), ('data_i18n_subcategory', 8, 'uint'),
        ('data_local_subcategory', 8, 'uint'),
        ('master_table_version', 8, 'uint'), ('local_table_version', 8, 'uint'),
        ('year', 16, 'uint'), ('month', 8, 'uint'), ('day', 8, 'uint'), ('hour', 8, 'uint'),
        ('minute', 8, 'uint'), ('second', 8, 'uint')],
}
SECTION0 = [('start_signature', 32, 'bytes'), ('length', 24, 'uint'), ('edition', 8, 'uint')]
SECTION2 = [('section_length', 24, 'uint'), ('reserved_bits', 8, 'bin'), ('local_bits', 0, 'bin')]
SECTION3 = [('section_length', 24, 'uint'), ('reserved_bits', 8, 'bin'), ('n_subsets', 16, 'uint'),
            ('is_observation', 1, 'bool'), ('is_compressed', 1, 'bool'), ('flag_bits', 6, 'bin'),
            ('unexpanded_descriptors', 0, 'unexpanded_descriptors')]
SECTION4 = [('section_length', 24, 'uint'), ('reserved_bits', 8, 'bin'),
            ('template_data', 0, 'template_data')]
SECTION5 = [('stop_signature', 32, 'bytes')]


def layout(edition, index):
    if index == 0:
        return SECTION0
    if index == 1:
        return SECTION1[edition]
    return {2: SECTION2, 3: SECTION3, 4: SECTION4, 5: SECTION5}[index]


def default_meta(edition=4):
    m = {'edition': edition, 'master_table_number': 0, 'originating_centre': 0,
         'originating_subcentre': 0, 'update_sequence_number': 0, 'data_category': 0,
         'data_i18n_subcategory': 0, 'data_local_subcategory': 0, 'master_table_version': 33,
         'local_table_version': 0, 'year': 2020 if edition >= 4 else 20, 'month': 1, 'day': 1,
         'hour': 0, 'minute': 0, 'second': 0, 'section2': None, 'is_observation': True,
         'is_compressed': False, 'n_subsets': 1}
    return m


def _pad_even(w, edition):
    w.pad_to_octet()
    if edition <= 3 and (w.n // 8) % 2:
        w.uint(0, 8)


def section1_bytes(meta, surplus=0, declared=None):
    ed = meta['edition']
    w = BitWriter()
    for name, nbits, typ in SECTION1[ed]:
        if name == 'section_length':
            w.uint(0, 24)
        elif name == 'is_section2_presents':
            w.uint(1 if meta.get('section2') is not None else 0, 1)
        elif name == 'flag_bits':
            w.uint(0, nbits)
        else:
            w.uint(meta[name], nbits)
    _pad_even(w, ed)
    for _ in range(surplus):
        w.uint(0, 8)
    return _with_length(w, declared)


def _with_length(w, declared=None):
    b = bytearray(w.to_bytes())
    n = len(b) if declared is None else declared
    b[0:3] = n.to_bytes(3, 'big')
    return bytes(b)


def section2_bytes(meta, surplus=0, declared=None):
    ed = meta['edition']
    w = BitWriter()
    w.uint(0, 24)
    w.uint(0, 8)
    w.raw_bytes(meta['section2'])
    _pad_even(w, ed)
    for _ in range(surplus):
        w.uint(0, 8)
    return _with_length(w, declared)


def section3_bytes(meta, descriptors, surplus=0, declared=None):
    ed = meta['edition']
    w = BitWriter()
    w.uint(0, 24)
    w.uint(0, 8)
    w.uint(meta['n_subsets'], 16)
    w.uint(1 if meta['is_observation'] else 0, 1)
    w.uint(1 if meta['is_compressed'] else 0, 1)
    w.uint(0, 6)
    for d in descriptors:
        w.uint(d // 100000, 2)
        w.uint((d // 1000) % 100, 6)
        w.uint(d % 1000, 8)
    _pad_even(w, ed)
    for _ in range(surplus):
        w.uint(0, 8)
    return _with_length(w, declared)


def section4_bytes(meta, data_bits, surplus=0, declared=None):
    ed = meta['edition']
    w = BitWriter()
    w.uint(0, 24)
    w.uint(0, 8)
    w.bits(data_bits)
    _pad_even(w, ed)
    for _ in range(surplus):
        w.uint(0, 8)
    return _with_length(w, declared)


def build(meta, descriptors, data_bits, surplus=None, declared=None, declared_total=None,
          stop=b'7777'):
    """Assemble a message.  surplus: {section index: extra zero octets}; declared:
    {section index: declared length override}.  Returns (bytes, info)."""
    surplus = surplus or {}
    declared = declared or {}
    secs = {}
    secs[1] = section1_bytes(meta, surplus.get(1, 0), declared.get(1))
    if meta.get('section2') is not None:
        secs[2] = section2_bytes(meta, surplus.get(2, 0), declared.get(2))
    secs[3] = section3_bytes(meta, descriptors, surplus.get(3, 0), declared.get(3))
    secs[4] = section4_bytes(meta, data_bits, surplus.get(4, 0), declared.get(4))
    body = b''.join(secs[k] for k in sorted(secs))
    total = 8 + len(body) + 4
    if declared_total is not None:
        total = declared_total
    msg = b'BUFR' + total.to_bytes(3, 'big') + bytes([meta['edition']]) + body + stop
    info = {'lengths': {k: len(v) for k, v in secs.items()}, 'total': len(msg)}
    off = 8
    info['offsets'] = {}
    for k in sorted(secs):
        info['offsets'][k] = off
        off += len(secs[k])
    info['offsets'][5] = off
    return msg, info


class Parsed(object):
    pass


def parse(data, at=0, allow_trailing=True, ignore_total=False):
    """Strict structural parser.  Accepts exactly well-formed framing: signatures, every
    declared length consistent with the content and the total, padding octets zero.  It
    does not look into section 4 (see message.decode for that).
    ignore_total: the view of a reader that walks the sections by their declared lengths and
    wants the stop signature right after section 4, without using the total length of
    section 0 (used to decide whether damage is visible to such a reader)."""
    p = Parsed()
    b = data[at:]
    if len(b) < 8 or b[0:4] != b'BUFR':
        raise IllFormed('no start signature')
    p.total = int.from_bytes(b[4:7], 'big')
    p.edition = b[7]
    if p.edition not in (2, 3, 4):
        raise IllFormed('edition %d' % p.edition)
    if ignore_total:
        msg = b
    else:
        if p.total > len(b):
            raise IllFormed('declared total length runs past the input')
        if not allow_trailing and p.total != len(b):
            raise IllFormed('trailing bytes')
        msg = b[:p.total]
        if msg[-4:] != b'7777':
            raise IllFormed('no stop signature at the declared end')
    p.bytes = msg
    p.meta = {'edition': p.edition}
    p.section_lengths = {}
    p.offsets = {}
    pos = 8
    # section 1
    lay = SECTION1[p.edition]
    need = sum(n for _, n, _ in lay) // 8
    l1 = _sec_len(msg, pos, need, p.edition)
    r = BitReader(msg, pos * 8, (pos + l1) * 8)
    for name, nbits, typ in lay:
        v = r.uint(nbits)
        if name == 'is_section2_presents':
            has2 = bool(v)
        elif name == 'flag_bits':
            p.meta['s1_flag_bits'] = v
        else:
            p.meta[name] = v
    p.section_lengths[1] = l1
    p.offsets[1] = pos
    p.surplus = {1: l1 - need}
    pos += l1
    if has2:
        l2 = _sec_len(msg, pos, 4, p.edition)
        p.meta['section2'] = msg[pos + 4:pos + l2]
        p.section_lengths[2] = l2
        p.offsets[2] = pos
        pos += l2
    else:
        p.meta['section2'] = None
    l3 = _sec_len(msg, pos, 7, p.edition)
    r = BitReader(msg, (pos + 4) * 8, (pos + l3) * 8)
    p.meta['n_subsets'] = r.uint(16)
    p.meta['is_observation'] = bool(r.uint(1))
    p.meta['is_compressed'] = bool(r.uint(1))
    p.meta['s3_flag_bits'] = r.uint(6)
    nd = (l3 - 7) // 2
    p.descriptors = []
    for _ in range(nd):
        f, x, y = r.uint(2), r.uint(6), r.uint(8)
        p.descriptors.append(f * 100000 + x * 1000 + y)
    p.section_lengths[3] = l3
    p.offsets[3] = pos
    pos += l3
    l4 = _sec_len(msg, pos, 4, p.edition)
    p.section_lengths[4] = l4
    p.offsets[4] = pos
    p.data_start_bit = (pos + 4) * 8
    p.data_end_bit = (pos + l4) * 8
    pos += l4
    if ignore_total:
        if msg[pos:pos + 4] != b'7777':
            raise IllFormed('no stop signature after section 4')
        p.total = pos + 4
        p.bytes = msg[:p.total]
    elif pos + 4 != p.total:
        raise IllFormed('sections end at %d, total length says %d' % (pos + 4, p.total))
    p.offsets[5] = pos
    return p


def _sec_len(msg, pos, need, edition):
    if pos + 3 > len(msg) - 4:
        raise IllFormed('section header runs into the end section')
    n = int.from_bytes(msg[pos:pos + 3], 'big')
    if n < need:
        raise IllFormed('declared section length %d shorter than its fixed content %d' % (n, need))
    if pos + n > len(msg) - 4:
        raise IllFormed('section runs past the end section')
    return n
