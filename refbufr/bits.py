"""Bit layer of the reference model: a writer that builds a str of '0'/'1' and a reader
over one big int.  No third-party bit library."""
from . import IllFormed


class BitWriter(object):
    def __init__(self):
        self.parts = []
        self.n = 0

    def uint(self, value, nbits):
        if nbits == 0:
            return
        if value < 0 or value >> nbits:
            raise ValueError('value %r does not fit %d bits' % (value, nbits))
        self.parts.append(format(value, '0%db' % nbits))
        self.n += nbits

    def sint(self, value, nbits):
        """sign-magnitude: first bit is the sign, the rest the magnitude"""
        self.uint(1 if value < 0 else 0, 1)
        self.uint(abs(value), nbits - 1)

    def raw_bytes(self, b):
        for c in bytearray(b):
            self.uint(c, 8)

    def bits(self, s):
        self.parts.append(s)
        self.n += len(s)

    def pad_to_octet(self):
        r = self.n % 8
        if r:
            self.uint(0, 8 - r)

    def bitstring(self):
        return ''.join(self.parts)

    def to_bytes(self):
        s = self.bitstring()
        if len(s) % 8:
            s += '0' * (8 - len(s) % 8)
        if not s:
            return b''
        return int(s, 2).to_bytes(len(s) // 8, 'big')


def bits_to_bytes(s):
    if len(s) % 8:
        s += '0' * (8 - len(s) % 8)
    return int(s, 2).to_bytes(len(s) // 8, 'big') if s else b''


class BitReader(object):
    def __init__(self, data, start_bit=0, end_bit=None):
        self.total = len(data) * 8
        self.v = int.from_bytes(data, 'big') if data else 0
        self.pos = start_bit
        self.end = self.total if end_bit is None else end_bit

    def uint(self, nbits):
        if nbits == 0:
            return 0
        if self.pos + nbits > self.end:
            raise IllFormed('read of %d bits at %d runs past %d' % (nbits, self.pos, self.end))
        shift = self.total - self.pos - nbits
        self.pos += nbits
        return (self.v >> shift) & ((1 << nbits) - 1)

    def sint(self, nbits):
        sign = self.uint(1)
        mag = self.uint(nbits - 1)
        return -mag if sign else mag

    def raw_bytes(self, n):
        return self.uint(8 * n).to_bytes(n, 'big') if n else b''
