"""The expected hierarchical view of one subset, built from the reference walker's
structural trace, the flat fields and the bitmap links.

Shape (the nested JSON layout documented for the library, minus 'description'):
  value node        {'id', 'value'[, 'virtual': True][, 'attributes': [...]]}
  sequence          {'id', 'members': [...]}
  replication       {'id'[, 'factor': value node], 'members': [[...], [...], ...]}   one list per repetition
  no-value node     {'id'}            (201/202/203/204/206/207/208/221/235 and elements dropped by 221)
Attributes: an associated field is the first attribute of the element it precedes and
carries the governing 031021 as its own attribute; quality information (class 33 after
222000) and 223255/224255/225255/232255 values are attributes of the element their bitmap
designates, flagged virtual; 224255/225255 carry their 008023/008024.
"""


class _N(object):
    __slots__ = ('idx', 'attrs', 'assoc')

    def __init__(self, idx, assoc=False):
        self.idx = idx
        self.attrs = []
        self.assoc = assoc


def build(struct, fields, links, value_of):
    """struct: Walk.root; fields: Walk.fields; links: Walk.links; value_of(k) -> value of
    flat index k for the subset being rendered."""
    nodes = {}
    st = {'assoc_depth': 0, 'assoc_meaning': None, 'wait_fo': False, 'wait_diff': False,
          'fo_meaning': None, 'diff_meaning': None}

    def node(idx, assoc=False):
        n = _N(idx, assoc)
        nodes[idx] = n
        return n

    def render(n, is_attr=False):
        d = {'id': fields[n.idx].label, 'value': value_of(n.idx)}
        if is_attr and not n.assoc:
            d['virtual'] = True
        if n.attrs:
            d['attributes'] = [render(a, True) for a in n.attrs]
        return d

    deferred = []   # (container list, position, node) rendered at the end, once all attributes are known

    def walk(items, out):
        for it in items:
            if 'members' in it and it.get('seq'):
                d = {'id': it['id'], 'members': []}
                out.append(d)
                walk(it['members'], d['members'])
            elif 'members' in it:
                d = {'id': it['id']}
                if 'factor' in it:
                    fn = node(it['factor'])
                    d['factor'] = fn
                    deferred.append((d, 'factor', fn))
                d['members'] = []
                out.append(d)
                for rep in it['members']:
                    lst = []
                    d['members'].append(lst)
                    walk(rep, lst)
            elif it.get('novalue'):
                op = int(it['id']) // 1000 if it['id'].isdigit() else 0
                y = int(it['id']) % 1000 if it['id'].isdigit() else 0
                if not it.get('skipped221') and op == 204:
                    if y == 0:
                        st['assoc_depth'] -= 1
                    else:
                        st['assoc_depth'] += 1
                out.append({'id': it['id']})
            else:
                idx = it['idx']
                n = node(idx)
                label = it['id']
                if 'assoc' in it:
                    a = node(it['assoc'], assoc=True)
                    if st['assoc_meaning'] is not None:
                        a.attrs.append(st['assoc_meaning'])
                    n.attrs.append(a)
                if it.get('marker'):
                    op = it['marker'] // 1000
                    if op == 224 and st['fo_meaning'] is not None:
                        n.attrs.append(st['fo_meaning'])
                    if op == 225 and st['diff_meaning'] is not None:
                        n.attrs.append(st['diff_meaning'])
                    nodes[links[idx]].attrs.append(n)
                elif idx in links:
                    # quality information
                    nodes[links[idx]].attrs.append(n)
                if label == '031021' and st['assoc_depth'] > 0:
                    st['assoc_meaning'] = n
                elif label == '008023' and st['wait_fo']:
                    st['fo_meaning'] = n
                    st['wait_fo'] = False
                elif label == '008024' and st['wait_diff']:
                    st['diff_meaning'] = n
                    st['wait_diff'] = False
                elif label == '224000':
                    st['wait_fo'] = True
                elif label == '225000':
                    st['wait_diff'] = True
                out.append(n)
                deferred.append((out, len(out) - 1, n))

    top = []
    walk(struct, top)
    for container, key, n in deferred:
        container[key] = render(n)
    return top


def strip_description(x):
    """remove the free-text 'description' entries of a nested JSON rendering"""
    if isinstance(x, list):
        return [strip_description(v) for v in x]
    if isinstance(x, dict):
        return {k: strip_description(v) for k, v in x.items() if k != 'description'}
    return x


def flat_order_values(nested):
    """Recover the flat value list from a nested view: attributes that are not virtual come
    first (associated field precedes its owner), then the owner."""
    out = []

    def value_node(d):
        for a in d.get('attributes', []):
            if 'virtual' not in a:
                out.append(a['value'])
        out.append(d['value'])

    def members(ms):
        for d in ms:
            if 'value' in d:
                value_node(d)
            else:
                if 'factor' in d:
                    value_node(d['factor'])
                if 'members' in d:
                    if d['members'] and isinstance(d['members'][0], list) or (d['id'].startswith('1')):
                        for rep in d['members']:
                            members(rep)
                    else:
                        members(d['members'])
    members(nested)
    return out
