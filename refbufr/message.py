"""Whole-message helpers of the reference model: reference decode of bytes, and the
positional flat-JSON form of a message (the encoder's input shape)."""
from . import IllFormed
from . import frame, tables as rtables, tree as rtree, codec
from .bits import BitReader


class RefMessage(object):
    pass


def decode(data, at=0, strict_padding=True, ignore_total=False):
    """Reference decode of one message starting at data[at:].  Raises IllFormed when the
    message is not well formed (framing, undefined descriptors, data not fitting section 4,
    non-zero padding)."""
    p = frame.parse(data, at, ignore_total=ignore_total)
    m = RefMessage()
    m.parsed = p
    meta = p.meta
    m.tables = rtables.load(*rtables.select(
        meta.get('master_table_number', 0), meta.get('originating_centre', 0),
        meta.get('originating_subcentre', 0), meta['master_table_version'],
        meta['local_table_version']))
    m.tree = rtree.parse(p.descriptors, m.tables)
    reader = BitReader(p.bytes, p.data_start_bit, p.data_end_bit)
    try:
        m.decoded = codec.read_data(m.tree, m.tables, meta['n_subsets'], meta['is_compressed'], reader)
    except Exception as e:
        from .walker import UnknownDescriptor
        if isinstance(e, UnknownDescriptor):
            raise IllFormed(str(e))
        raise
    m.data_bits_used = reader.pos - p.data_start_bit
    if strict_padding:
        rest = reader.end - reader.pos
        if rest and reader.uint(rest) != 0:
            raise IllFormed('non-zero bits after the data')
    return m


def flat_json(meta, descriptors, values_all_subsets, lengths=None, total=0):
    """The positional lists the encoder takes.  lengths: {section: declared length} (0 =
    let the encoder compute)."""
    lengths = lengths or {}
    ed = meta['edition']
    out = [['BUFR', total, ed]]
    s1 = []
    for name, nbits, typ in frame.SECTION1[ed]:
        if name == 'section_length':
            s1.append(lengths.get(1, 0))
        elif name == 'is_section2_presents':
            s1.append(meta.get('section2') is not None)
        elif name == 'flag_bits':
            s1.append('0' * nbits)
        else:
            s1.append(meta[name])
    out.append(s1)
    if meta.get('section2') is not None:
        bits = ''.join(format(c, '08b') for c in bytearray(meta['section2']))
        out.append([lengths.get(2, 0), '00000000', bits])
    out.append([lengths.get(3, 0), '00000000', meta['n_subsets'], bool(meta['is_observation']),
                bool(meta['is_compressed']), '000000', list(descriptors)])
    out.append([lengths.get(4, 0), '00000000', values_all_subsets])
    out.append(['7777'])
    return out
