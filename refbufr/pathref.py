"""Reference recogniser / parser for the documented path grammar (docs/internals.rst,
"Query the Template Data") and a reference evaluator of a parsed path over the nested JSON
rendering of a message.  Imports nothing from pybufrkit.

    query_expr  = ['@' slice] path_spec+
    path_spec   = separator ID [slice]          separator = '/' | '.' | '>'
    slice       = '[' int ']' | '[' [int] ':' [int] [':' [int]] ']'
    int         = ['-'] digit+
    ID          = one or more characters, none of them white space or one of @ [ ] : / . >

White space is deleted before anything else.  The separator of the first path_spec may be
omitted (it is then '>') when there is no '@' selector, and it can never be '.', the two
refinements the repository's own tests pin down.

Verdicts
  ACCEPT  -- derivable, and every ID consists of [0-9A-Z] only and every int is ['-'] digit+
  LAX     -- derivable only with an ID holding other characters, or an int that only Python's
             int() understands ('+1', '1_0', non-ASCII digits): the documentation does not
             say, either outcome is tolerated
  REJECT  -- no derivation
"""
import re

WS = ' \t\n\r\x0b\x0c'
SPECIAL = '@[]:/.>'
ACCEPT, LAX, REJECT = 'accept', 'lax', 'reject'
_STRICT_ID = re.compile(r'^[0-9A-Z]+$')
_STRICT_INT = re.compile(r'^-?[0-9]+$')


class NoParse(Exception):
    pass


class RefPath(object):
    def __init__(self):
        self.verdict = REJECT
        self.subset = None       # slice spec or None (no '@')
        self.components = []     # [(separator, id, slice spec or None)]
        self.why = ''


def _slice(t, i, st):
    """t[i] == '['; returns (spec, next index).  spec: ('idx', k) | ('slice', a, b, c)"""
    i += 1
    elements = []
    while True:
        j = i
        while j < len(t) and t[j] not in SPECIAL:
            j += 1
        tok = t[i:j]
        if j >= len(t):
            raise NoParse('slice not terminated')
        if t[j] not in ':]':
            raise NoParse('unexpected %r inside a slice' % t[j])
        if tok == '':
            elements.append(None)
        else:
            if not _STRICT_INT.match(tok):
                try:
                    int(tok)
                except ValueError:
                    raise NoParse('not an integer: %r' % tok)
                st['lax'] = True
            elements.append(int(tok))
        i = j + 1
        if t[j] == ']':
            break
    if len(elements) > 3:
        raise NoParse('more than three slice parts')
    if len(elements) == 1:
        if elements[0] is None:
            raise NoParse('empty slice')
        return ('idx', elements[0]), i
    while len(elements) < 3:
        elements.append(None)
    return ('slice', elements[0], elements[1], elements[2]), i


def parse(s):
    p = RefPath()
    t = ''.join(c for c in s if c not in WS)
    st = {'lax': False}
    try:
        if t == '':
            raise NoParse('empty')
        if any(ord(c) > 127 for c in t):
            st['lax'] = True
        i = 0
        has_at = False
        if t[0] == '@':
            has_at = True
            if len(t) < 2 or t[1] != '[':
                raise NoParse("'@' without a slice")
            p.subset, i = _slice(t, 1, st)
        first = True
        while i < len(t):
            if t[i] in '/.>':
                sep = t[i]
                i += 1
            elif first and not has_at:
                sep = '>'
            else:
                raise NoParse('separator expected at %d' % i)
            if first and sep == '.':
                raise NoParse("'.' cannot be the first separator")
            j = i
            while j < len(t) and t[j] not in SPECIAL:
                j += 1
            ident = t[i:j]
            if ident == '':
                raise NoParse('empty ID at %d' % i)
            if not _STRICT_ID.match(ident):
                st['lax'] = True
            i = j
            spec = None
            if i < len(t) and t[i] == '[':
                spec, i = _slice(t, i, st)
            elif i < len(t) and t[i] not in '/.>':
                raise NoParse('unexpected %r at %d' % (t[i], i))
            p.components.append((sep, ident, spec))
            first = False
        if not p.components:
            raise NoParse('no path component')
    except NoParse as e:
        p.verdict = REJECT
        p.why = str(e)
        p.components = []
        p.subset = None
        return p
    p.verdict = LAX if st['lax'] else ACCEPT
    return p


def apply_spec(spec, xs, bare_all=True):
    """effect of a reference slice spec on a list ('error' for a zero step)"""
    if spec is None:
        return list(xs) if bare_all else list(xs[:1])
    if spec[0] == 'idx':
        k = spec[1]
        k2 = k if k >= 0 else len(xs) + k
        return [xs[k2]] if 0 <= k2 < len(xs) else []
    try:
        return list(xs[slice(spec[1], spec[2], spec[3])])
    except ValueError:
        return 'error'


def spec_to_str(spec):
    if spec is None:
        return ''
    if spec[0] == 'idx':
        return '[%d]' % spec[1]
    return '[%s:%s:%s]' % tuple('' if x is None else x for x in spec[1:])


# ---- reference evaluation of a parsed path over the nested JSON rendering of one subset -----------------
class NotEvaluable(Exception):
    """the path enters a node that has no such sub-nodes (the library raises QueryError): outside the statement"""


def _is_replication(node):
    return node.get('id', '')[:1] == '1' and 'members' in node and 'value' not in node


def _select(cands, ident, spec):
    """candidates with that id, slice applied to the matches, document order kept"""
    pos = [i for i, c in enumerate(cands) if c.get('id') == ident]
    chosen = apply_spec(spec, pos)
    if chosen == 'error':
        raise NotEvaluable('zero slice step')
    return sorted(chosen)


def evaluate(subset_members, components):
    """Nested list of values the path designates in one subset.  components: [(sep, id, spec)] with sep in '/' '.'."""
    root = {'id': 'TEMPLATE', 'members': subset_members}
    return _eval(root, list(components))


def _eval(node, comps):
    sep, ident, spec = comps[0]
    rest = comps[1:]
    if sep == '/':
        if 'members' not in node or 'value' in node:
            raise NotEvaluable('%s has no child nodes' % node.get('id'))
        if _is_replication(node):
            reps = node['members']
            if not reps:
                return []
            idx = _select(reps[0], ident, spec)
            if not idx:
                return []
            envelope = []
            for rep in reps:
                got = _proceed([rep[i] for i in idx], rest)
                if got:
                    envelope.append(got)
            return [envelope] if envelope else []
        cands = node['members']
        return _proceed([cands[i] for i in _select(cands, ident, spec)], rest)
    if sep == '.':
        cands = []
        if 'factor' in node:
            cands.append(node['factor'])
        elif 'attributes' not in node:
            raise NotEvaluable('%s has no attribute nodes' % node.get('id'))
        cands += node.get('attributes', []) or []
        return _proceed([cands[i] for i in _select(cands, ident, spec)], rest)
    raise NotEvaluable('descendant steps are not evaluated by the reference')


def _proceed(nodes, rest):
    out = []
    if not rest:
        for n in nodes:
            if 'value' not in n:
                raise NotEvaluable('valueless node %s' % n.get('id'))
            out.append(n['value'])
        return out
    for n in nodes:
        out += _eval(n, rest)
    return out


def prune(x):
    """drop empty lists at every level (the statement does not say whether an empty repetition is an empty list)"""
    if isinstance(x, list):
        out = []
        for y in x:
            y = prune(y)
            if isinstance(y, list) and not y:
                continue
            out.append(y)
        return out
    return x


def flatten(x):
    out = []
    for y in x:
        if isinstance(y, list):
            out.extend(flatten(y))
        else:
            out.append(y)
    return out
