"""The reference template walker.

One recursive walk over the template tree with an explicit register record, parameterised
by a *field source* (generate / read / given).  The walker always works on columns: for
uncompressed data it is run once per subset with nsub == 1, for compressed data once with
nsub == n and every leaf yields one raw value per subset.

Output: the flat list of Field, the bitmap links {attribute index: owner index} and the
nested structure (members / factor) used by nested.py.
"""
from fractions import Fraction

from . import IllFormed, Unsupported

MARKER_PREFIX = {223: 'T', 224: 'F', 225: 'D', 232: 'R'}


def all_ones(nbits):
    return (1 << nbits) - 1


class Field(object):
    __slots__ = ('label', 'kind', 'nbits', 'scale', 'ref', 'raws', 'plain', 'elem_id', 'role',
                 'comp')

    def __init__(self, label, kind, nbits, scale=0, ref=0, plain=False, elem_id=None, role='data'):
        self.label = label
        self.kind = kind      # 'num' 'code' 'str' 'assoc' 'skip' 'refval' 'const'
        self.nbits = nbits    # width in bits (strings: 8 * nbytes; const: 0)
        self.scale = scale
        self.ref = ref
        self.raws = None      # one raw per subset of this walk
        self.plain = plain    # emitted by an F=0 descriptor of the template (back-referencable)
        self.elem_id = elem_id
        self.role = role      # 'data' 'factor' 'bit' 'refval' 'const'
        self.comp = None      # (min, width, diffs) when read from a compressed stream

    def is_missing_raw(self, raw):
        if self.kind in ('num', 'code', 'assoc', 'skip'):
            return self.nbits > 1 and raw == all_ones(self.nbits)
        if self.kind == 'str':
            return len(raw) > 0 and raw == b'\xff' * len(raw)
        return False

    def exact(self, raw):
        """The FM-94 value of a raw: None (missing), int, Fraction, or bytes."""
        k = self.kind
        if k == 'num':
            if self.nbits > 1 and raw == all_ones(self.nbits):
                return None
            v = raw + self.ref
            if self.scale == 0:
                return v
            return Fraction(v) / (Fraction(10) ** self.scale)
        if k in ('code', 'assoc', 'skip'):
            if self.nbits > 1 and raw == all_ones(self.nbits):
                return None
            return raw
        if k == 'str':
            return raw
        if k == 'refval':
            return raw
        if k == 'const':
            return 0
        raise AssertionError(k)

    def value(self, raw):
        """The value in the Python types the property fixes: int stays int when the
        effective scale is 0, otherwise the correctly rounded float."""
        v = self.exact(raw)
        if isinstance(v, Fraction):
            return float(v)
        if self.kind == 'num' and v is not None and self.scale != 0:
            return float(v)
        return v

    def ones_value(self):
        """the number a numeric field's all-ones pattern would be if it were not the missing indicator"""
        v = all_ones(self.nbits) + self.ref
        if self.scale == 0:
            return v
        return float(Fraction(v) / (Fraction(10) ** self.scale))

    def describe(self):
        return {'label': self.label, 'kind': self.kind, 'nbits': self.nbits, 'scale': self.scale,
                'ref': self.ref}


class Regs(object):
    """Operator registers; a fresh record at the start of every subset."""

    def __init__(self):
        self.dw = 0            # 201
        self.ds = 0            # 202
        self.refw = 0          # 203 definition mode width
        self.newref = {}       # 203 re-referenced ids
        self.assoc = []        # 204 stack
        self.skipw = 0         # 206
        self.y207 = 0          # 207
        self.nbytes208 = 0     # 208
        self.dnp = 0           # 221
        self.qa = None         # None / 'waiting' / 'processing'
        # bitmaps and back references
        self.bm_state = None   # None / 'indicator' / 'collect'
        self.bm_bits = None
        self.bm_reuse = False
        self.stored = None     # bitmap kept by 236000
        self.recent = None     # most recently defined bitmap (for ambiguity detection)
        self.backref = None    # field indices of the current epoch's reference set
        self.boundary = 0
        self.targets = None    # owner indices of the current bitmap's zero bits
        self.tpos = 0

    def inc207(self):
        return (10 * self.y207 + 2) // 3 if self.y207 else 0

    def snapshot(self):
        """The registers a replication body must leave unchanged to be scope balanced."""
        return (self.dw, self.ds, self.refw, tuple(sorted(self.newref)), tuple(self.assoc),
                self.skipw, self.y207, self.nbytes208, self.dnp)


class Walk(object):
    def __init__(self, source, nsub, tables):
        self.src = source
        self.nsub = nsub
        self.tables = tables
        self.fields = []
        self.links = {}
        self.regs = Regs()
        self.root = []
        self.stack = [self.root]
        self.ambiguous = []      # notes: specification-ambiguous constructs met
        self.features = set()
        self.unbalanced = False  # some replication body changed the registers
        self.cur_rep = None      # the delayed replication whose factor is being produced

    # -- structure ---------------------------------------------------------------------
    def _add_struct(self, item):
        self.stack[-1].append(item)

    # -- leaves ------------------------------------------------------------------------
    def _emit(self, field):
        field.raws = self.src.leaf(self, field)
        if len(field.raws) != self.nsub:
            raise AssertionError('source returned %d raws for %d subsets' % (len(field.raws), self.nsub))
        self.fields.append(field)
        return len(self.fields) - 1

    def _shared_raw(self, field):
        r0 = field.raws[0]
        for r in field.raws:
            if r != r0:
                raise IllFormed('%s must be identical in all subsets of compressed data' % field.label)
        return r0

    # -- bitmap definition -------------------------------------------------------------
    def _track_bitmap(self, nd):
        r = self.regs
        if r.bm_state == 'indicator':
            if nd.t == 'O' and nd.id == 236000:
                r.bm_reuse = True
                r.bm_state = 'collect'
                r.bm_bits = []
            elif nd.t == 'O' and nd.id == 237000:
                r.bm_state = None
            else:
                r.bm_reuse = False
                r.bm_state = 'collect'
                r.bm_bits = []

    def _end_of_bits(self):
        """Called before anything that is not a 031031 leaf is processed."""
        r = self.regs
        if r.bm_state == 'collect' and r.bm_bits:
            bits = r.bm_bits
            r.bm_state = None
            r.bm_bits = None
            self._define_bitmap(bits)

    def _define_bitmap(self, bits):
        r = self.regs
        if r.bm_reuse:
            r.stored = list(bits)
            self.features.add('bitmap_reuse_def')
        r.recent = list(bits)
        if not r.backref:
            ref = []
            for idx in range(r.boundary - 1, -1, -1):
                if self.fields[idx].plain:
                    ref.insert(0, idx)
                    if len(ref) == len(bits):
                        break
            if len(ref) != len(bits):
                raise IllFormed('bitmap of %d bits but only %d elements to refer to' % (len(bits), len(ref)))
            r.backref = ref
        elif len(r.backref) != len(bits):
            raise IllFormed('second bitmap of a different length in one back-reference epoch')
        r.targets = [t for b, t in zip(bits, r.backref) if b == 0]
        r.tpos = 0
        self.features.add('bitmap')
        if any(bits) and not all(bits):
            self.features.add('bitmap_mixed')

    def _next_target(self):
        r = self.regs
        if r.targets is None or r.tpos >= len(r.targets):
            raise IllFormed('more bitmapped values than zero bits')
        t = r.targets[r.tpos]
        r.tpos += 1
        return t

    # -- walking -----------------------------------------------------------------------
    def members(self, nodes):
        r = self.regs
        for nd in nodes:
            if r.dnp:
                r.dnp -= 1
                if nd.t == 'O' and nd.id // 1000 in (201, 202, 207, 208):
                    # one of the YYY descriptors whichever way they are counted; it takes effect as usual
                    self.features.add('221_over_operator')
                elif nd.t in ('S', 'R', 'D', 'O', 'US'):
                    self.ambiguous.append('221 scope over a non-element descriptor')
                if nd.t == 'E':
                    x = nd.id // 1000
                    if not (1 <= x <= 9 or x == 31):
                        self.features.add('221_skipped')
                        self._add_struct({'id': '%06d' % nd.id, 'novalue': True, 'skipped221': True})
                        continue
            if r.refw and nd.t == 'E':
                self._define_refval(nd)
                continue
            if r.skipw:
                self._end_of_bits()
                self._skipped_local(nd)
                continue
            if r.bm_state is not None:
                self._track_bitmap(nd)
            t = nd.t
            if t == 'E':
                self.element(nd)
            elif t == 'R':
                self.fixed(nd)
            elif t == 'D':
                self.delayed(nd)
            elif t == 'O':
                self.operator(nd)
            elif t == 'S':
                self.sequence(nd)
            else:
                raise UnknownDescriptor(nd.id)

    def _define_refval(self, nd):
        r = self.regs
        self._end_of_bits()
        e = nd.elem
        if e.kind == 'str':
            raise IllFormed('new reference value for a character element')
        if r.refw < 2:
            raise IllFormed('203001: a sign-magnitude field needs a magnitude bit')
        f = Field('%06d' % nd.id, 'refval', r.refw, plain=True, elem_id=nd.id, role='refval')
        idx = self._emit(f)
        r.newref[nd.id] = self._shared_raw(f)
        self.features.add('203')
        self._add_struct({'id': f.label, 'idx': idx})

    def _skipped_local(self, nd):
        r = self.regs
        if r.assoc:
            self.ambiguous.append('206 inside an open 204 scope')
        f = Field('S%05d' % nd.id, 'skip', r.skipw, elem_id=nd.id)
        idx = self._emit(f)
        r.skipw = 0
        self.features.add('206')
        self._add_struct({'id': f.label, 'idx': idx})

    def element(self, nd, marker=None, marker_owner=None, as_member=True, role=None):
        """marker: the 2XX255 operator id when called for a marker, marker_owner the field
        index it refers to; as_member False for replication factors and markers (their
        structural item is added by the caller)."""
        r = self.regs
        e = nd.elem
        x = nd.id // 1000
        is_bit = (nd.id == 31031 and marker is None)
        if not is_bit:
            self._end_of_bits()
        assoc_idx = None
        if r.assoc and x != 31:
            af = Field('A%05d' % nd.id, 'assoc', sum(r.assoc), elem_id=nd.id)
            assoc_idx = self._emit(af)
            self.features.add('204')
            if len(r.assoc) > 1:
                self.features.add('204_nested')
        # quality information after 222000
        qa_owner = None
        if x == 33:
            if r.qa == 'waiting':
                r.qa = 'processing'
            if r.qa == 'processing':
                qa_owner = self._next_target()
                self.features.add('222_qa')
        else:
            if r.qa == 'processing':
                r.qa = None

        if marker is not None:
            label = '%s%05d' % (MARKER_PREFIX[marker // 1000], nd.id)
            plain = False
        else:
            label = '%06d' % nd.id
            plain = True

        if marker == 225255 and e.kind != 'num':
            self.ambiguous.append('225255 on a non-numeric element')
        if e.kind == 'str':
            nbytes = r.nbytes208 if r.nbytes208 else e.nbits // 8
            if r.nbytes208:
                self.features.add('208')
            f = Field(label, 'str', 8 * nbytes, plain=plain, elem_id=nd.id)
        elif e.kind == 'code':
            if e.sut_numeric_codeish and (r.dw or r.ds or r.y207):
                self.ambiguous.append('code table with non-canonical unit text under 201/202/207')
            f = Field(label, 'code', e.nbits, plain=plain, elem_id=nd.id)
        else:
            nbits, scale, ref = e.nbits, e.scale, e.ref
            if marker == 225255:
                ref = -(1 << nbits)
                nbits += 1
                if nd.id in r.newref:
                    self.ambiguous.append('225255 on an element with a new reference value')
            if x == 31:
                if r.dw or r.ds or r.y207:
                    self.ambiguous.append('class 31 element under 201/202/207')
            else:
                if r.dw:
                    self.features.add('201')
                if r.ds:
                    self.features.add('202')
                if r.y207:
                    self.features.add('207')
                nbits += r.dw + r.inc207()
                scale += r.ds + r.y207
                if nd.id in r.newref and marker != 225255:
                    ref = r.newref[nd.id]
                    self.features.add('203_applied')
                ref = ref * (10 ** r.y207)
            if nbits < 1:
                raise IllFormed('field width %d after operators' % nbits)
            f = Field(label, 'num', nbits, scale, ref, plain=plain, elem_id=nd.id)
        if is_bit:
            f.role = 'bit'
        elif role:
            f.role = role
        idx = self._emit(f)
        if f.nbits == 1:
            self.features.add('1bit')
        if is_bit and r.bm_state == 'collect':
            r.bm_bits.append(self._shared_raw(f))
        if qa_owner is not None:
            self.links[idx] = qa_owner
        if marker is not None:
            self.links[idx] = marker_owner
        if as_member:
            item = {'id': f.label, 'idx': idx}
            if assoc_idx is not None:
                item['assoc'] = assoc_idx
            self._add_struct(item)
        return idx, assoc_idx

    def fixed(self, nd):
        self.features.add('fixed_rep')
        if self.stack_depth_rep() >= 1:
            self.features.add('nested_rep')
        item = {'id': '%06d' % nd.id, 'members': []}
        self._add_struct(item)
        self._rep_depth += 1
        if self.regs.refw:
            self.unbalanced = True     # a body inside a 203YYY definition list defines reference values: never neutral
        for _ in range(nd.count):
            before = self.regs.snapshot()
            it = []
            item['members'].append(it)
            self.stack.append(it)
            self.members(nd.members)
            self.stack.pop()
            if self.regs.snapshot() != before:
                self.unbalanced = True
        self._rep_depth -= 1

    _rep_depth = 0

    def stack_depth_rep(self):
        return self._rep_depth

    def delayed(self, nd):
        if nd.factor.id in (31011, 31012):
            raise Unsupported('delayed repetition')
        if nd.factor.t != 'E':
            raise UnknownDescriptor(nd.factor.id)
        self.features.add('delayed_rep')
        if self.stack_depth_rep() >= 1:
            self.features.add('nested_rep')
        # the factor is processed as an element of class 31 (it is not a member of the body)
        self.cur_rep = nd
        fidx, _ = self.element(nd.factor, as_member=False, role='factor')
        ff = self.fields[fidx]
        raw = self._shared_raw(ff)
        if ff.is_missing_raw(raw):
            raise IllFormed('missing delayed replication factor')
        count = ff.exact(raw)
        if count == 0:
            self.features.add('zero_rep')
        item = {'id': '%06d' % nd.id, 'factor': fidx, 'members': []}
        self._add_struct(item)
        self._rep_depth += 1
        if self.regs.refw:
            self.unbalanced = True     # (also when it runs zero times: the compiler decides before the count is known)
        for _ in range(count):
            before = self.regs.snapshot()
            it = []
            item['members'].append(it)
            self.stack.append(it)
            self.members(nd.members)
            self.stack.pop()
            if self.regs.snapshot() != before:
                self.unbalanced = True
        self._rep_depth -= 1

    def sequence(self, nd):
        self.features.add('sequence')
        item = {'id': '%06d' % nd.id, 'members': [], 'seq': True}
        self._add_struct(item)
        self.stack.append(item['members'])
        self.members(nd.members)
        self.stack.pop()

    def _const(self, nd):
        f = Field('%06d' % nd.id, 'const', 0, role='const')
        idx = self._emit(f)
        self._add_struct({'id': f.label, 'idx': idx})
        return idx

    def operator(self, nd):
        r = self.regs
        self._end_of_bits()
        op, y = nd.id // 1000, nd.id % 1000
        if op == 201:
            r.dw = (y - 128) if y else 0
        elif op == 202:
            r.ds = (y - 128) if y else 0
        elif op == 203:
            if y == 255:
                r.refw = 0
            else:
                r.refw = y
                if y == 0:
                    r.newref = {}
        elif op == 204:
            if y == 0:
                if not r.assoc:
                    raise IllFormed('204000 without an open 204YYY')
                r.assoc.pop()
            else:
                r.assoc.append(y)
        elif op == 205:
            if r.assoc:
                self.ambiguous.append('205 inside an open 204 scope')
            f = Field('%06d' % nd.id, 'str', 8 * y, elem_id=nd.id)
            idx = self._emit(f)
            self.features.add('205')
            self._add_struct({'id': f.label, 'idx': idx})
            return
        elif op == 206:
            r.skipw = y
        elif op == 207:
            r.y207 = y
        elif op == 208:
            r.nbytes208 = y
        elif op == 221:
            r.dnp = y
            self.features.add('221')
        elif op in (222, 223, 224, 225, 232):
            if y == 0:
                r.boundary = len(self.fields)
                self._const(nd)
                r.bm_state = 'indicator'
                if op == 222:
                    r.qa = 'waiting'
                self.features.add(str(op))
                return
            elif y == 255 and op != 222:
                self._marker(nd)
                return
            else:
                raise Unsupported('operator %06d' % nd.id)
        elif op == 235:
            if y != 0:
                raise Unsupported('operator %06d' % nd.id)
            r.backref = None
            r.stored = None
            r.recent = None
            r.targets = None
            self.features.add('235')
        elif op == 236:
            self._const(nd)
            self.features.add('236')
            return
        elif op == 237:
            if y == 0:
                if r.stored is None:
                    raise IllFormed('237000 without a bitmap defined for reuse')
                if r.recent != r.stored:
                    self.ambiguous.append('237000 after a later non-reuse bitmap')
                r.targets = [t for b, t in zip(r.stored, r.backref) if b == 0]
                r.tpos = 0
                self.features.add('237000')
            elif y == 255:
                if r.stored is not None and not r.bm_reuse:
                    self.ambiguous.append('237255 after a later non-reuse bitmap')
                r.stored = None
                self.features.add('237255')
            else:
                raise Unsupported('operator %06d' % nd.id)
            self._const(nd)
            return
        else:
            raise Unsupported('operator %06d' % nd.id)
        self._add_struct({'id': '%06d' % nd.id, 'novalue': True})

    def _marker(self, nd):
        r = self.regs
        if r.assoc:
            self.ambiguous.append('marker operator inside an open 204 scope')
        owner = self._next_target()
        of = self.fields[owner]
        target = _MarkerTarget(of.elem_id, self.tables.B[of.elem_id])
        idx, assoc_idx = self.element(target, marker=nd.id, marker_owner=owner, as_member=False)
        self.features.add('%d255' % (nd.id // 1000))
        self._add_struct({'id': self.fields[idx].label, 'idx': idx, 'marker': nd.id})


class _MarkerTarget(object):
    t = 'E'

    def __init__(self, id_, elem):
        self.id = id_
        self.elem = elem


class UnknownDescriptor(Exception):
    def __init__(self, id_):
        Exception.__init__(self, 'descriptor %06d is in no table' % id_)
        self.id = id_
