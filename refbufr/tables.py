"""Table loading and version selection of the reference model.

Reads TableB.json / TableD.json straight from the repository's table directory with the
json module and implements the documented fall-back rule from the directory listing:
master table number -> 0, master table version -> 33, local sub-centre -> <centre>_0,
else no local table.
"""
import json
import os
from collections import namedtuple

from . import TABLES_ROOT

Elem = namedtuple('Elem', 'id name unit scale ref nbits kind sut_numeric_codeish')

DEFAULT_MASTER_NUMBER = 0
DEFAULT_MASTER_VERSION = 33

_CACHE = {}


def kind_of_unit(unit):
    if unit == 'CCITT IA5':
        return 'str'
    if 'TABLE' in unit.upper():
        return 'code'
    return 'num'


def make_elem(id_, fields):
    name, unit, scale, ref, nbits = fields[:5]
    kind = kind_of_unit(unit)
    # Elements whose unit text says "code/flag table" in a spelling other than the two
    # canonical upper-case ones: FM-94 makes them code tables, the code under test
    # treats them as numeric.  Identical result outside 201/202/207 scopes; the
    # generators keep them out of such scopes (DESIGN 10-2).
    amb = kind == 'code' and unit not in ('CODE TABLE', 'FLAG TABLE')
    return Elem(id_, name, unit, scale, ref, nbits, kind, amb)


def available_master_versions(master_number=0, root=None):
    root = root or TABLES_ROOT
    d = os.path.join(root, str(master_number), '0_0')
    return sorted(int(x) for x in os.listdir(d) if x.isdigit())


def available_local(master_number=0, root=None):
    """[(centre, subcentre, version)] of bundled local tables"""
    root = root or TABLES_ROOT
    out = []
    base = os.path.join(root, str(master_number))
    for cs in sorted(os.listdir(base)):
        if cs == '0_0' or '_' not in cs:
            continue
        c, s = cs.split('_')
        for v in sorted(os.listdir(os.path.join(base, cs))):
            if v.isdigit():
                out.append((int(c), int(s), int(v)))
    return out


def select(master_number, centre, subcentre, master_version, local_version, root=None):
    """The decoder-side selection rule (with fall-back).  Returns (wmo_sn, local_sn) where
    each sn is a tuple of three strings (master number, 'centre_sub', version) or None."""
    root = root or TABLES_ROOT
    # "0 or absent means default" for every field
    master_number = master_number or DEFAULT_MASTER_NUMBER
    master_version = master_version or DEFAULT_MASTER_VERSION
    centre = centre or 0
    subcentre = subcentre or 0
    local_version = local_version or 0
    mn = str(master_number)
    if not os.path.isdir(os.path.join(root, mn)):
        mn = str(DEFAULT_MASTER_NUMBER)
    if os.path.isdir(os.path.join(root, mn, '0_0', str(master_version))):
        wmo = (mn, '0_0', str(master_version))
    else:
        wmo = (mn, '0_0', str(DEFAULT_MASTER_VERSION))
    local = None
    if local_version != 0:
        for cs in ('%d_%d' % (centre, subcentre), '%d_0' % centre):
            if os.path.isdir(os.path.join(root, mn, cs, str(local_version))):
                local = (mn, cs, str(local_version))
                break
    return wmo, local


def select_exact(master_number, centre, subcentre, master_version, local_version):
    """The encoder-side rule: exactly what the message says, no fall-back."""
    wmo = (str(master_number), '0_0', str(master_version))
    local = None
    if local_version != 0:
        local = (str(master_number), '%d_%d' % (centre, subcentre), str(local_version))
    return wmo, local


class Tables(object):
    def __init__(self, wmo_sn, local_sn, extra_b=None, extra_d=None, root=None):
        root = root or TABLES_ROOT
        self.wmo_sn, self.local_sn = wmo_sn, local_sn
        self.B = {}
        self.D = {}
        for sn in (wmo_sn, local_sn):
            if sn is None:
                continue
            d = os.path.join(root, *sn)
            with open(os.path.join(d, 'TableB.json')) as f:
                for k, v in json.load(f).items():
                    self.B[int(k)] = make_elem(int(k), v)
            with open(os.path.join(d, 'TableD.json')) as f:
                for k, v in json.load(f).items():
                    self.D[int(k)] = (v[0], [int(x) for x in v[1]])
        for k, v in (extra_b or {}).items():
            self.B[int(k)] = make_elem(int(k), v)
        for k, v in (extra_d or {}).items():
            self.D[int(k)] = (v[0], [int(x) for x in v[1]])


def load(wmo_sn, local_sn=None):
    key = (wmo_sn, local_sn)
    if key not in _CACHE:
        _CACHE[key] = Tables(wmo_sn, local_sn)
    return _CACHE[key]


def load_for(master_number=0, centre=0, subcentre=0, master_version=33, local_version=0):
    return load(*select(master_number, centre, subcentre, master_version, local_version))
