"""refbufr -- an independent reference model of FM-94 BUFR, written for verification.

Nothing in this package imports pybufrkit.  The only thing it shares with the code under
test are the Table B / Table D *data files*, which define the elements and therefore have
to be shared; the loader, the template tree builder, the template walker, the bit layer,
the section framing and the hierarchical view are written from FM-94 and from the property
statements in /verif/properties.jsonl.
"""
import os

REPO = os.environ.get('VERIF_REPO', '/repo')
TABLES_ROOT = os.path.join(REPO, 'pybufrkit', 'tables')


class IllFormed(Exception):
    """The input is not a well-formed BUFR message / template by the reference's rules."""


class Unsupported(Exception):
    """A construct the reference deliberately does not model (241-243, 031011/012 ...)."""
