"""Descriptor list -> template tree, by the FM-94 counting rule.

1XXYYY owns its class-31 factor (when YYY == 0) and then the next X descriptors *of the
list it stands in* as its body; a nested replication descriptor, its factor and its body
all count towards the X of the enclosing one.  3XXYYY expands recursively to its Table D
members.  flatten(parse(ids)) == ids.
"""
from . import IllFormed


class Node(object):
    __slots__ = ('t', 'id', 'members', 'count', 'factor', 'elem', 'name', 'src')

    def __init__(self, t, id_, members=None, count=None, factor=None, elem=None, name=None):
        self.t = t            # 'E' element, 'O' operator, 'S' sequence, 'R' fixed rep, 'D' delayed rep,
        #                       'UE' undefined element, 'US' undefined sequence
        self.id = id_
        self.members = members
        self.count = count    # fixed replication count
        self.factor = factor  # Node of the class-31 factor (delayed)
        self.elem = elem
        self.name = name
        self.src = None       # index in the top-level unexpanded list (None inside Table D)

    def __repr__(self):
        if self.members is None:
            return '%s%06d' % (self.t, self.id)
        return '%s%06d%r' % (self.t, self.id, self.members)


def _elem_node(id_, tables):
    e = tables.B.get(id_)
    if e is None:
        return Node('UE', id_)
    return Node('E', id_, elem=e)


def parse(ids, tables, strict=True, _depth=0, _seq_cache=None, _base=0):
    """Build the tree for a list of integer descriptor ids."""
    if _depth > 40:
        raise IllFormed('sequence nesting too deep (cyclic Table D?)')
    if _seq_cache is None:
        _seq_cache = {}
    out = []
    i = 0
    n = len(ids)
    while i < n:
        d = ids[i]
        f = d // 100000
        src = (_base + i) if _base is not None else None
        if f == 0:
            out.append(_elem_node(d, tables))
            i += 1
        elif f == 2:
            out.append(Node('O', d))
            i += 1
        elif f == 3:
            # sequence nodes are shared through the cache, so they carry no src
            out.append(_sequence(d, tables, strict, _depth, _seq_cache))
            i += 1
            continue
        elif f == 1:
            x = (d // 1000) % 100
            y = d % 1000
            i += 1
            factor = None
            if y == 0:
                if i >= n:
                    raise IllFormed('delayed replication %06d without factor' % d)
                factor = _elem_node(ids[i], tables)
                i += 1
            body = ids[i:i + x]
            if len(body) < x and strict:
                raise IllFormed('replication %06d body runs past the end of its list' % d)
            members = parse(body, tables, strict, _depth, _seq_cache,
                            (_base + i) if _base is not None else None)
            i += len(body)
            if y == 0:
                out.append(Node('D', d, members=members, factor=factor))
            else:
                out.append(Node('R', d, members=members, count=y))
        else:
            raise IllFormed('descriptor %r out of range' % d)
        out[-1].src = src
    return out


def _sequence(d, tables, strict, depth, cache):
    if d in cache:
        return cache[d]
    ent = tables.D.get(d)
    if ent is None:
        node = Node('US', d)
    else:
        node = Node('S', d, members=parse(ent[1], tables, strict, depth + 1, cache, None), name=ent[0])
    cache[d] = node
    return node


def flatten(nodes):
    """Tree -> the unexpanded list it was built from (sequences are NOT expanded)."""
    out = []
    for nd in nodes:
        out.append(nd.id)
        if nd.t == 'D':
            out.append(nd.factor.id)
            out.extend(flatten(nd.members))
        elif nd.t == 'R':
            out.extend(flatten(nd.members))
    return out


def expand(nodes):
    """Tree -> fully expanded flat id list (sequence ids dropped, replication ids and
    factors kept) -- the direct expansion of the table file."""
    out = []
    for nd in nodes:
        if nd.t == 'S':
            out.extend(expand(nd.members))
        elif nd.t == 'D':
            out.append(nd.id)
            out.append(nd.factor.id)
            out.extend(expand(nd.members))
        elif nd.t == 'R':
            out.append(nd.id)
            out.extend(expand(nd.members))
        else:
            out.append(nd.id)
    return out


def shape(nodes):
    """A plain nested description of the tree for isomorphism comparison."""
    out = []
    for nd in nodes:
        if nd.t in ('E', 'UE', 'O', 'US'):
            out.append((nd.t, nd.id))
        elif nd.t == 'S':
            out.append(('S', nd.id, shape(nd.members)))
        elif nd.t == 'R':
            out.append(('R', nd.id, shape(nd.members)))
        elif nd.t == 'D':
            out.append(('D', nd.id, nd.factor.id, shape(nd.members)))
    return out


def fix_ncep(nodes):
    """NCEP in-stream tables define "replication-only" sequences such as [101000, 031001]: the
    descriptor to replicate is not part of the sequence but follows it.  Returns a new node
    list in which such a sequence (or a bare replication without body) owns the node that
    follows it.  Applied recursively; nodes are copied, the shared sequence cache is not
    modified."""
    out = []
    pending = list(nodes)
    while pending:
        nd = pending.pop(0)
        if nd.t == 'S' and nd.members is not None and len(nd.members) == 1 and nd.members[0].t in ('R', 'D') \
                and not nd.members[0].members:
            pending.insert(0, nd.members[0])
            continue
        if nd.t in ('R', 'D'):
            members = list(nd.members)
            if not members:
                if (nd.id // 1000) % 100 != 1 or not pending:
                    raise IllFormed('replication %06d without body' % nd.id)
                members = [pending.pop(0)]
            c = Node(nd.t, nd.id, members=fix_ncep(members), count=nd.count, factor=nd.factor)
            c.src = nd.src
            out.append(c)
        elif nd.t == 'S':
            c = Node('S', nd.id, members=fix_ncep(nd.members), name=nd.name)
            out.append(c)
        else:
            out.append(nd)
    return out


def has_undefined(nodes):
    """does the tree hold a descriptor that is in no table (also inside bodies that may run zero times)?"""
    for nd in nodes:
        if nd.t in ('UE', 'US'):
            return True
        if nd.t == 'D' and nd.factor is not None and nd.factor.t != 'E':
            return True
        if nd.members and has_undefined(nd.members):
            return True
    return False
