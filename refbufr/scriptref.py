"""Reference ${...} substitution for scripts with escape-free string literals (C18).

    code      text outside literals and comments
    literal   '...' or "..." (no escapes; closed by the same quote character)
    comment   # ... up to and including the end of the line
    embed     ${ expr }  outside literals and comments

Returns (output, substitutions, status): every embed is replaced by PBK_i, i the rank of the
first occurrence of the white-space-trimmed expression; everything else is copied.  status is
'ok', or 'unterminated' when the input ends inside an embed or a literal (unspecified)."""


def substitute(s):
    out = []
    subs = {}
    order = []
    i = 0
    n = len(s)
    status = 'ok'
    while i < n:
        c = s[i]
        if c in '\'"':
            j = s.find(c, i + 1)
            if j < 0:
                out.append(s[i:])
                status = 'unterminated'
                break
            out.append(s[i:j + 1])
            i = j + 1
        elif c == '#':
            j = s.find('\n', i)
            if j < 0:
                out.append(s[i:])
                break
            out.append(s[i:j + 1])
            i = j + 1
        elif c == '$' and s[i + 1:i + 2] == '{':
            j = s.find('}', i + 2)
            if j < 0:
                status = 'unterminated'
                break
            expr = s[i + 2:j].strip()
            if expr not in subs:
                subs[expr] = 'PBK_%d' % len(order)
                order.append(expr)
            out.append(subs[expr])
            i = j + 1
        else:
            out.append(c)
            i += 1
    return ''.join(out), subs, status
