"""Coverage-guided stage: run atheris (libFuzzer) campaigns as subprocesses and fold their
counters and failures into a Report.  See fuzz_entry.py for the target protocol."""
import json
import os
import shutil
import subprocess
import sys

from . import runner

VERIF = runner.VERIF
WORK = os.environ.get('VERIF_WORK_DIR') or os.path.join(VERIF, '.work')


def available():
    return os.path.isdir(os.path.join(VERIF, '.deps', 'atheris'))


def run_atheris(rep, modname, funcname, runs, shards=4, seeds=(), tag='fuzz', max_len=64, timeout_s=1800,
                empty_corpus_shards=1, flush_every=5000):
    """`shards` campaigns in parallel, each `runs` executions, libFuzzer seed derived from the
    report's seed.  The first `empty_corpus_shards` campaigns start from an empty corpus, the
    others from `seeds`.  A campaign that hits the timeout is 'inconclusive', never a violation."""
    if not available():
        rep.excluded['atheris stage skipped: atheris not installed (run tools/setup.py)'] += 1
        return
    base = os.path.join(WORK, rep.pid, '%s-%d' % (tag, os.getpid()))     # concurrent runs of one check do not share it
    shutil.rmtree(base, ignore_errors=True)
    procs = []
    for i in range(shards):
        d = os.path.join(base, 'shard%d' % i)
        corpus = os.path.join(d, 'corpus')
        os.makedirs(corpus)
        if i >= empty_corpus_shards:
            for k, s in enumerate(seeds):
                with open(os.path.join(corpus, 'seed%03d' % k), 'wb') as f:
                    f.write(s)
        lf_seed = (runner._derive_seed(rep.seed, 1000 + i) % 2000000000) + 1
        cmd = [sys.executable, os.path.join(VERIF, 'vlib', 'fuzz_entry.py'), modname, funcname, d,
               '-runs=%d' % runs, '-seed=%d' % lf_seed, '-max_len=%d' % max_len, '-print_final_stats=0',
               '-verbosity=0', corpus]
        env = dict(os.environ, PYTHONHASHSEED='0', PYTHONDONTWRITEBYTECODE='1', VERIF_FUZZ_FLUSH=str(flush_every))
        log = open(os.path.join(d, 'log'), 'wb')
        procs.append((d, subprocess.Popen(cmd, stdout=log, stderr=subprocess.STDOUT, env=env, cwd=d), log))
    total = 0
    for d, p, log in procs:
        try:
            p.wait(timeout=timeout_s)
        except subprocess.TimeoutExpired:
            p.kill()
            rep.excluded['atheris campaign stopped by the time limit (inconclusive)'] += 1
        log.close()
        sp = os.path.join(d, 'stats.json')
        if os.path.exists(sp):
            st = json.load(open(sp))
            total += st['executions']
            rep.evaluations += st['executions']
            rep.bulk_distinct += st.get('distinct', 0)
            rep.bulk_nontrivial += st.get('nontrivial', 0)
            for c, k in st['classes'].items():
                rep.classes['fuzz_' + c] += k
            for f in sorted(os.listdir(d)):
                if f.startswith('fail-'):
                    fj = json.load(open(os.path.join(d, f)))
                    clause = 'fuzz: ' + fj['clause']
                    rep.failure_counts[clause] += st['failure_counts'].get(fj['clause'], 1) - 1
                    case = fj['case']
                    choices = case.pop('_choices', None) if isinstance(case, dict) else None
                    rep.add_failure(clause, fj['detail'], case, choices=choices, stage='atheris ' + tag)
        else:
            tail = open(os.path.join(d, 'log'), 'rb').read()[-600:].decode(errors='replace')
            rep.harness_errors.append('atheris shard produced no statistics: %s' % tail)
    rep.extra.setdefault('atheris', {})[tag] = {'campaigns': shards, 'runs_per_campaign': runs, 'executions_counted': total,
                                                'empty_corpus_campaigns': empty_corpus_shards}
    shutil.rmtree(base, ignore_errors=True)


# ---------------------------------------------------------------------------------------------
# structured coverage-guided stage: libFuzzer mutates the bytes from which a ByteChooser takes the
# decisions of the check's ordinary generator, so the same generator / oracle pair is driven by
# coverage feedback from pybufrkit instead of by Hypothesis' random draws.
def structured_target(gen_fn, check_fn):
    from .choose import ByteChooser

    def target(data):
        ch = ByteChooser(data)
        try:
            case = gen_fn(ch)
            out = check_fn(case)
        except runner.Reject as e:
            return 'reject', False, ['rejected: ' + str(e)[:40]], []
        fails = []
        if out.failures:
            cj = dict(case.to_json())
            cj['_choices'] = list(ch.record)
            fails = [(clause, runner.jsonable(detail), runner.jsonable(cj)) for clause, detail in out.failures]
        return case.key(), out.nontrivial, list(out.classes), fails
    return target


def seed_inputs(gen_fn, n, seed):
    """n byte strings that make the ByteChooser re-take the decisions of n Hypothesis-generated cases
    (the non-empty starting corpus of a structured campaign)"""
    import hypothesis
    from hypothesis import HealthCheck, Phase, given, settings, strategies as st
    from .choose import Chooser, encode_trace
    out = []

    @hypothesis.seed(runner._derive_seed(seed, 7777))
    @settings(max_examples=n, phases=[Phase.generate], database=None, deadline=None,
              suppress_health_check=list(HealthCheck))
    @given(st.data())
    def collect(data):
        ch = Chooser(data=data)
        ch.trace = []
        try:
            gen_fn(ch)
        except runner.Reject:
            return
        b = encode_trace(ch.trace)
        if 0 < len(b) <= 4096:
            out.append(b)
    collect()
    return out


def run_structured(rep, modname, gen_fn, tier, funcname='fuzz_case', tag='structured', runs=None, shards=None):
    """Coverage-guided campaigns over the check's own generator (see structured_target).  Half of the
    campaigns start from an empty corpus, the others from a few Hypothesis-generated cases."""
    if runs is None:
        runs = 1500 if tier == 'quick' else 25000
    if shards is None:
        shards = 2 if tier == 'quick' else 8
    try:
        seeds = seed_inputs(gen_fn, 12 if tier == 'quick' else 40, rep.seed)
    except Exception as e:      # a generator error here is a harness error, not a verdict
        rep.harness_errors.append('structured fuzz seeds: %r' % (e,))
        return
    run_atheris(rep, modname, funcname, runs=runs, shards=shards, seeds=seeds, tag=tag, max_len=4096,
                timeout_s=300 if tier == 'quick' else 3600, empty_corpus_shards=max(1, shards // 2), flush_every=100)
