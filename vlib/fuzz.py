"""Coverage-guided stage: run atheris (libFuzzer) campaigns as subprocesses and fold their
counters and failures into a Report.  See fuzz_entry.py for the target protocol."""
import json
import os
import shutil
import subprocess
import sys

from . import runner

VERIF = runner.VERIF
WORK = os.environ.get('VERIF_WORK_DIR') or os.path.join(VERIF, '.work')


def available():
    return os.path.isdir(os.path.join(VERIF, '.deps', 'atheris'))


def run_atheris(rep, modname, funcname, runs, shards=4, seeds=(), tag='fuzz', max_len=64, timeout_s=1800,
                empty_corpus_shards=1):
    """`shards` campaigns in parallel, each `runs` executions, libFuzzer seed derived from the
    report's seed.  The first `empty_corpus_shards` campaigns start from an empty corpus, the
    others from `seeds`.  A campaign that hits the timeout is 'inconclusive', never a violation."""
    if not available():
        rep.excluded['atheris stage skipped: atheris not installed (run tools/setup.py)'] += 1
        return
    base = os.path.join(WORK, rep.pid, tag)
    shutil.rmtree(base, ignore_errors=True)
    procs = []
    for i in range(shards):
        d = os.path.join(base, 'shard%d' % i)
        corpus = os.path.join(d, 'corpus')
        os.makedirs(corpus)
        if i >= empty_corpus_shards:
            for k, s in enumerate(seeds):
                with open(os.path.join(corpus, 'seed%03d' % k), 'wb') as f:
                    f.write(s)
        lf_seed = (runner._derive_seed(rep.seed, 1000 + i) % 2000000000) + 1
        cmd = [sys.executable, os.path.join(VERIF, 'vlib', 'fuzz_entry.py'), modname, funcname, d,
               '-runs=%d' % runs, '-seed=%d' % lf_seed, '-max_len=%d' % max_len, '-print_final_stats=0',
               '-verbosity=0', corpus]
        env = dict(os.environ, PYTHONHASHSEED='0', PYTHONDONTWRITEBYTECODE='1')
        log = open(os.path.join(d, 'log'), 'wb')
        procs.append((d, subprocess.Popen(cmd, stdout=log, stderr=subprocess.STDOUT, env=env, cwd=d), log))
    total = 0
    for d, p, log in procs:
        try:
            p.wait(timeout=timeout_s)
        except subprocess.TimeoutExpired:
            p.kill()
            rep.excluded['atheris campaign stopped by the time limit (inconclusive)'] += 1
        log.close()
        sp = os.path.join(d, 'stats.json')
        if os.path.exists(sp):
            st = json.load(open(sp))
            total += st['executions']
            rep.evaluations += st['executions']
            rep.bulk_distinct += st.get('distinct', 0)
            rep.bulk_nontrivial += st.get('nontrivial', 0)
            for c, k in st['classes'].items():
                rep.classes['fuzz_' + c] += k
            for f in sorted(os.listdir(d)):
                if f.startswith('fail-'):
                    fj = json.load(open(os.path.join(d, f)))
                    clause = 'fuzz: ' + fj['clause']
                    rep.failure_counts[clause] += st['failure_counts'].get(fj['clause'], 1) - 1
                    rep.add_failure(clause, fj['detail'], fj['case'], stage='atheris ' + tag)
        else:
            tail = open(os.path.join(d, 'log'), 'rb').read()[-600:].decode(errors='replace')
            rep.harness_errors.append('atheris shard produced no statistics: %s' % tail)
    rep.extra.setdefault('atheris', {})[tag] = {'campaigns': shards, 'runs_per_campaign': runs, 'executions_counted': total,
                                                'empty_corpus_campaigns': empty_corpus_shards}
    shutil.rmtree(base, ignore_errors=True)
