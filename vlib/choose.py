"""Choice sequence: every random decision of every generator goes through a Chooser.

Backends:
  * Hypothesis: each decision is `data.draw(st.integers(lo, hi))`, so generation is driven
    (and seeded) by Hypothesis and nothing else.
  * replay: decisions are taken from a recorded list (values are clamped into the range
    asked for; an exhausted list yields the lower bound), which is how shrinking and
    `--replay` re-execute a case without Hypothesis.
The record of (lo, hi, value) triples is the case's reproduction recipe.
"""
from hypothesis import strategies as st

_INT_CACHE = {}


def _ints(lo, hi):
    k = (lo, hi)
    s = _INT_CACHE.get(k)
    if s is None:
        s = _INT_CACHE[k] = st.integers(lo, hi)
    return s


class Chooser(object):
    def __init__(self, data=None, replay=None):
        self.data = data
        self.replay = replay
        self.pos = 0
        self.record = []
        self.trace = None       # set to a list to log (lo, hi, value) triples (seed inputs for the byte backend)

    def int(self, lo, hi):
        if hi < lo:
            raise ValueError('empty range %r..%r' % (lo, hi))
        if lo == hi:
            return lo
        if self.data is not None:
            v = self.data.draw(_ints(lo, hi))
        else:
            if self.pos < len(self.replay):
                v = self.replay[self.pos]
                if v < lo:
                    v = lo
                elif v > hi:
                    v = lo + (v - lo) % (hi - lo + 1)
            else:
                v = lo
            self.pos += 1
        self.record.append(v)
        if self.trace is not None:
            self.trace.append((lo, hi, v))
        return v

    def bool(self, num=1, den=2):
        """True with probability num/den (False is the simple/shrunk outcome)"""
        return self.int(0, den - 1) >= den - num

    def choice(self, seq):
        return seq[self.int(0, len(seq) - 1)]

    def weighted(self, pairs):
        """pairs: [(weight, item)]; the first item is the shrink target"""
        total = sum(w for w, _ in pairs)
        k = self.int(0, total - 1)
        for w, item in pairs:
            if k < w:
                return item
            k -= w
        return pairs[-1][1]

    def bytes(self, n, alphabet=None):
        if alphabet is None:
            return bytes(self.int(0, 255) for _ in range(n))
        return bytes(alphabet[self.int(0, len(alphabet) - 1)] for _ in range(n))


def _nbytes(span):
    return ((span - 1).bit_length() + 7) // 8


class ByteChooser(Chooser):
    """Decisions decoded from a byte string: the backend of the coverage-guided stage, where
    libFuzzer mutates the bytes.  A decision over lo..hi consumes the fewest whole octets that can
    hold the span (big endian, reduced modulo the span); an exhausted buffer yields the lower
    bound.  `record` holds the decisions taken, so a failing input replays through
    Chooser(replay=record) like any other case."""

    def __init__(self, buf):
        Chooser.__init__(self, replay=[])
        self.buf = bytes(buf)
        self.off = 0

    def int(self, lo, hi):
        if hi < lo:
            raise ValueError('empty range %r..%r' % (lo, hi))
        if lo == hi:
            return lo
        span = hi - lo + 1
        k = _nbytes(span)
        chunk = self.buf[self.off:self.off + k]
        self.off += k
        v = lo + int.from_bytes(chunk, 'big') % span if chunk else lo
        self.record.append(v)
        return v


def encode_trace(trace):
    """the byte string from which ByteChooser re-takes the logged decisions"""
    out = bytearray()
    for lo, hi, v in trace:
        out += (v - lo).to_bytes(_nbytes(hi - lo + 1), 'big')
    return bytes(out)


def shrink_choices(record, still_fails, deadline, clock):
    """Reduce a recorded choice list while still_fails(list) holds.  Passes: delete
    chunks, zero chunks, lower single values.  Time boxed: returns the best list so far
    once clock() > deadline."""
    best = list(record)

    def attempt(cand):
        nonlocal best
        if cand == best:
            return False
        if still_fails(cand):
            best = cand
            return True
        return False

    improved = True
    while improved and clock() < deadline:
        improved = False
        # delete chunks
        size = max(1, len(best) // 2)
        while size >= 1 and clock() < deadline:
            i = 0
            while i < len(best) and clock() < deadline:
                cand = best[:i] + best[i + size:]
                if attempt(cand):
                    improved = True
                else:
                    i += size
            size //= 2
        # zero chunks, then single values
        size = max(1, len(best) // 4)
        while size >= 1 and clock() < deadline:
            i = 0
            while i < len(best) and clock() < deadline:
                if any(best[i:i + size]):
                    cand = best[:i] + [0] * len(best[i:i + size]) + best[i + size:]
                    if attempt(cand):
                        improved = True
                i += size
            size //= 2
        # lower single values
        i = 0
        while i < len(best) and clock() < deadline:
            v = best[i]
            for nv in (v // 2, v - 1):
                if 0 <= nv < v:
                    cand = best[:i] + [nv] + best[i + 1:]
                    if attempt(cand):
                        improved = True
                        break
            i += 1
    return best
