"""Helpers around the encoder's input (flat JSON) shared by several checks."""
import json

from refbufr import message as rmessage


def to_text(v):
    """bytes -> latin-1 str (the form string values have in JSON)"""
    if isinstance(v, (bytes, bytearray)):
        return bytes(v).decode('latin-1')
    return v


def flat_values(case, unpad=False, as_str=True):
    out = []
    for vals in case.values():
        row = []
        for v in vals:
            if isinstance(v, (bytes, bytearray)):
                if unpad and v != b'\xff' * len(v):
                    v = bytes(v).rstrip(b' ')
                v = to_text(v) if as_str else bytes(v)
            row.append(v)
        out.append(row)
    return out


def flat_json_of_case(case, unpad=False, as_str=True, lengths=None, total=0):
    return rmessage.flat_json(case.meta, case.ids, flat_values(case, unpad, as_str), lengths, total)


def as_json_text(flat):
    return json.dumps(flat)
