"""Run a callable in a forked child and get its (picklable) result over a pipe.  The child
inherits the parent's memory, so a parent that never touched the library's caches gives every
child the state of a fresh process at the price of a fork (3 ms) instead of an interpreter
start.  A child that dies or exceeds the time limit raises ChildFailed (a harness error)."""
import os
import pickle
import select
import signal
import time
import traceback


class ChildFailed(Exception):
    pass


def run(fn, *args, **kw):
    timeout = kw.pop('_timeout', 120)
    r, w = os.pipe()
    pid = os.fork()
    if pid == 0:
        code = 0
        try:
            os.close(r)
            try:
                res = ('ok', fn(*args, **kw))
            except BaseException as e:
                res = ('exc', '%s: %s\n%s' % (type(e).__name__, e, traceback.format_exc()[-1500:]))
            data = pickle.dumps(res, protocol=pickle.HIGHEST_PROTOCOL)
            with os.fdopen(w, 'wb') as f:
                f.write(data)
        except BaseException:
            code = 3
        finally:
            os._exit(code)
    os.close(w)
    chunks = []
    deadline = time.time() + timeout
    with os.fdopen(r, 'rb') as f:
        while True:
            left = deadline - time.time()
            if left <= 0:
                os.kill(pid, signal.SIGKILL)
                os.waitpid(pid, 0)
                raise ChildFailed('child exceeded %ds' % timeout)
            ready, _, _ = select.select([f], [], [], min(left, 5))
            if not ready:
                continue
            c = f.read1(1 << 20) if hasattr(f, 'read1') else f.read()
            if not c:
                break
            chunks.append(c)
    os.waitpid(pid, 0)
    data = b''.join(chunks)
    if not data:
        raise ChildFailed('child returned nothing')
    kind, val = pickle.loads(data)
    if kind == 'exc':
        raise ChildFailed(val)
    return val
