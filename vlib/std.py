"""Boilerplate shared by the per-property check modules."""
import json

from . import runner
from .runner import Report


def replay_files(rep, pid, check_fn, load_case):
    """regression tier: committed corpus/<pid>/*.json are re-executed first"""
    for path in runner.corpus_files(pid):
        replay_one(rep, path, check_fn, load_case)


def replay_one(rep, path, check_fn, load_case):
    with open(path) as f:
        d = json.load(f)
    case = load_case(d['case'])
    out = check_fn(case)
    rep.add_case('replay:' + path, True, ['regression_replay'])
    for clause, detail in out.failures:
        rep.add_failure(clause, detail, d['case'], stage='replay ' + path)
    return bool(out.failures)


def replay_main(pid, path, check_fn, load_case):
    rep = Report(pid, 'quick', 0)
    bad = replay_one(rep, path, check_fn, load_case)
    for clause, f in rep.failures.items():
        print('VIOLATION property=%s replay=%s' % (pid, path))
        print('  clause: %s detail: %s' % (clause, json.dumps(runner.jsonable(f['detail']))[:800]))
    if not bad:
        print('replay %s: property holds' % path)
    return 1 if bad else 0


def add_results(rep, results, stage):
    """results: [(case-like, Outcome or None, exclusion reason or None)]"""
    for case, out, excl in results:
        if excl:
            rep.excluded['%s: %s' % (stage, excl)] += 1
            continue
        rep.add_case(case.key(), out.nontrivial, out.classes, case.summary() if len(rep.samples) < 8 else None)
        for clause, detail in out.failures:
            rep.add_failure('%s: %s' % (stage, clause), detail, case.to_json(), stage=stage)


def run_boundary(rep, tier, check_fn, only=None, wrap=None):
    """the hand-laid-out messages at the numeric limits of the format (gen.messages.boundary_cases) through a check's
    own oracle; wrap(case) -> iterable of the check's case objects"""
    from gen import messages as gmsg
    for name, case in gmsg.boundary_cases(tier):
        if only is not None and not any(name.startswith(x) for x in only):
            continue
        for c in (wrap(case) if wrap else [case]):
            out = check_fn(c)
            rep.add_case('boundary:' + name + ':' + c.key(), True, ['boundary_' + name], None)
            for clause, detail in out.failures:
                rep.add_failure('format limits (%s): %s' % (name, clause), detail, c.to_json(), stage='format limits')


def run_named(rep, named_cases, check_fn, stage, cls=None):
    """deterministic, hand-laid-out cases [(name, case)] through a check's own oracle"""
    for name, c in named_cases:
        out = check_fn(c)
        rep.add_case(stage + ':' + name + ':' + c.key(), True, [cls or stage.replace(' ', '_')] + sorted(out.classes or []), None)
        for clause, detail in out.failures:
            rep.add_failure('%s (%s): %s' % (stage, name, clause), detail, c.to_json(), stage=stage)
