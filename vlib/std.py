"""Boilerplate shared by the per-property check modules."""
import json

from . import runner
from .runner import Report


def replay_files(rep, pid, check_fn, load_case):
    """regression tier: committed corpus/<pid>/*.json are re-executed first"""
    for path in runner.corpus_files(pid):
        replay_one(rep, path, check_fn, load_case)


def replay_one(rep, path, check_fn, load_case):
    with open(path) as f:
        d = json.load(f)
    case = load_case(d['case'])
    out = check_fn(case)
    rep.add_case('replay:' + path, True, ['regression_replay'])
    for clause, detail in out.failures:
        rep.add_failure(clause, detail, d['case'], stage='replay ' + path)
    return bool(out.failures)


def replay_main(pid, path, check_fn, load_case):
    rep = Report(pid, 'quick', 0)
    bad = replay_one(rep, path, check_fn, load_case)
    for clause, f in rep.failures.items():
        print('VIOLATION property=%s replay=%s' % (pid, path))
        print('  clause: %s detail: %s' % (clause, json.dumps(runner.jsonable(f['detail']))[:800]))
    if not bad:
        print('replay %s: property holds' % path)
    return 1 if bad else 0


def add_results(rep, results, stage):
    """results: [(case-like, Outcome or None, exclusion reason or None)]"""
    for case, out, excl in results:
        if excl:
            rep.excluded['%s: %s' % (stage, excl)] += 1
            continue
        rep.add_case(case.key(), out.nontrivial, out.classes, case.summary() if len(rep.samples) < 8 else None)
        for clause, detail in out.failures:
            rep.add_failure('%s: %s' % (stage, clause), detail, case.to_json(), stage=stage)
