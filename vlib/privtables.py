"""A private tables root directory (the documented tables_root_dir argument / -t option): master table 0 with

* version 33 -- the bundled one with 012001 re-defined (scale 2, reference 0, 16 bits instead of scale 1, 12 bits), 001001
  widened to 10 bits and sequence 301011 cut down to (004001, 004002);
* version 77 -- which the bundled tables do not have (a copy of the bundled version 25);

and nothing else (no version 13 / 25, no local tables).  Written under the check's scratch directory."""
import json
import os
import shutil

from refbufr import TABLES_ROOT


def build(d):
    for v, src in (('33', '33'), ('77', '25')):
        dst = os.path.join(d, '0', '0_0', v)
        os.makedirs(dst, exist_ok=True)
        for f in os.listdir(os.path.join(TABLES_ROOT, '0', '0_0', src)):
            shutil.copy(os.path.join(TABLES_ROOT, '0', '0_0', src, f), os.path.join(dst, f))
    pb = os.path.join(d, '0', '0_0', '33', 'TableB.json')
    with open(pb) as f:
        b = json.load(f)
    b['012001'][2:5] = [2, 0, 16]
    b['001001'][4] = 10
    with open(pb, 'w') as f:
        json.dump(b, f)
    pd = os.path.join(d, '0', '0_0', '33', 'TableD.json')
    with open(pd) as f:
        t = json.load(f)
    t['301011'][1] = ['004001', '004002']
    with open(pd, 'w') as f:
        json.dump(t, f)
    return d
