"""Run the library's command line (pybufrkit.main) in-process with captured output."""
import contextlib
import io
import os
import shutil
import sys
import tempfile

from . import sut

WORK = os.environ.get('VERIF_WORK_DIR') or os.path.join(os.path.dirname(os.path.dirname(os.path.abspath(__file__))), '.work')


def run_main(argv):
    """(outcome, stdout, stderr); outcome.ok is False when main raised (incl. SystemExit != 0)"""
    import pybufrkit
    out, err = io.StringIO(), io.StringIO()
    old = sys.argv
    sys.argv = ['pybufrkit'] + list(argv)
    try:
        with contextlib.redirect_stdout(out), contextlib.redirect_stderr(err):
            def call():
                try:
                    return pybufrkit.main()
                except SystemExit as e:
                    if e.code not in (0, None):
                        raise RuntimeError('SystemExit %r' % (e.code,))
            o = sut.call(call)
    finally:
        sys.argv = old
    return o, out.getvalue(), err.getvalue()


@contextlib.contextmanager
def scratch(prefix='cli'):
    os.makedirs(WORK, exist_ok=True)
    d = tempfile.mkdtemp(prefix=prefix + '-', dir=WORK)
    try:
        yield d
    finally:
        shutil.rmtree(d, ignore_errors=True)
