#!/venv/bin/python
"""atheris entry point (run as a subprocess by vlib.fuzz.run_atheris):

    fuzz_entry.py <check module> <target function> <out dir> [libFuzzer args ...]

The target function takes the fuzzer's bytes and returns (key, nontrivial, classes, failures)
with failures = [(clause, detail, case_json)].  The semantic oracle therefore lives inside the
target; a failure does not stop the campaign: the first case per clause is written to
<out dir>/fail-<n>.json at once (atexit handlers do not run under libFuzzer) and the
search goes on, so a shallow defect cannot hide a deeper one.  Counters go to
<out dir>/stats.json every VERIF_FUZZ_FLUSH (default 5000) executions and at the last execution that is reached."""
import importlib
import json
import os
import sys

HERE = os.path.dirname(os.path.dirname(os.path.abspath(__file__)))
sys.path.insert(0, HERE)
sys.path.append(os.path.join(HERE, '.deps'))
os.environ.setdefault('PYTHONHASHSEED', '0')

import atheris  # noqa: E402

FLUSH_EVERY = int(os.environ.get('VERIF_FUZZ_FLUSH', '5000'))


def main():
    modname, funcname, outdir = sys.argv[1:4]
    argv = [sys.argv[0]] + sys.argv[4:]
    with atheris.instrument_imports(include=['pybufrkit'], enable_loader_override=False):
        mod = importlib.import_module(modname)
    target = getattr(mod, funcname)
    stats = {'executions': 0, 'nontrivial': 0, 'classes': {}, 'failure_counts': {}}
    seen = set()
    nontriv = set()

    def flush():
        stats['distinct'] = len(seen)
        stats['nontrivial'] = len(nontriv)
        tmp = os.path.join(outdir, 'stats.json.tmp')
        with open(tmp, 'w') as f:
            json.dump(stats, f)
        os.replace(tmp, os.path.join(outdir, 'stats.json'))

    def one(data):
        key, nontrivial, classes, failures = target(data)
        stats['executions'] += 1
        if len(seen) < 2000000:
            seen.add(key)
            if nontrivial:
                nontriv.add(key)
        for c in classes:
            stats['classes'][c] = stats['classes'].get(c, 0) + 1
        for clause, detail, case in failures:
            n = stats['failure_counts'].get(clause, 0)
            stats['failure_counts'][clause] = n + 1
            if n == 0:
                with open(os.path.join(outdir, 'fail-%d.json' % len(stats['failure_counts'])), 'w') as f:
                    json.dump({'clause': clause, 'detail': detail, 'case': case}, f)
                flush()
        if stats['executions'] % FLUSH_EVERY == 0:
            flush()

    atheris.Setup(argv, one)
    atheris.Fuzz()


if __name__ == '__main__':
    main()
