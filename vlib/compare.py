"""Value comparison under the soundness rules of DESIGN 10-1."""
import math


def same_value(got, exp, ulps=4):
    if exp is None:
        return got is None
    if isinstance(exp, bool):
        return got is exp
    if isinstance(exp, int):
        return type(got) is int and got == exp
    if isinstance(exp, float):
        if not isinstance(got, float):
            return False
        if got == exp:
            return True
        return abs(got - exp) <= ulps * math.ulp(exp)
    if isinstance(exp, (bytes, bytearray)):
        return isinstance(got, (bytes, bytearray)) and bytes(got) == bytes(exp)
    return got == exp


def first_value_diff(got_list, exp_list):
    """None when equal, else (index, got, expected)"""
    if len(got_list) != len(exp_list):
        return ('len', len(got_list), len(exp_list))
    for i, (g, e) in enumerate(zip(got_list, exp_list)):
        if not same_value(g, e):
            return (i, g, e)
    return None
