"""The only module that imports pybufrkit: thin adapters over the public API."""
import os
import sys

REPO = os.environ.get('VERIF_REPO', '/repo')
if REPO not in sys.path:
    sys.path.insert(0, REPO)

import logging                                      # noqa: E402
logging.getLogger().setLevel(logging.ERROR)         # the library logs table fall-backs at WARNING
import pybufrkit                                    # noqa: E402
from pybufrkit.decoder import Decoder, generate_bufr_message   # noqa: E402
from pybufrkit.encoder import Encoder               # noqa: E402
from pybufrkit.errors import (PyBufrKitError, UnknownDescriptor, BitReadError,      # noqa: E402
                              PathExprParsingError, MetadataExprParsingError, QueryError)
from pybufrkit.renderer import (FlatJsonRenderer, NestedJsonRenderer, FlatTextRenderer,   # noqa: E402
                                NestedTextRenderer)
from pybufrkit import utils as pbk_utils            # noqa: E402

assert os.path.realpath(os.path.dirname(pybufrkit.__file__)) == os.path.realpath(os.path.join(REPO, 'pybufrkit')), \
    'pybufrkit imported from %s, expected %s' % (pybufrkit.__file__, REPO)


def innermost_sut_frame(tb):
    """(file:function) of the innermost pybufrkit frame of a traceback"""
    last = None
    while tb is not None:
        fn = tb.tb_frame.f_code.co_filename
        if os.sep + 'pybufrkit' + os.sep in fn:
            last = '%s:%s' % (os.path.basename(fn), tb.tb_frame.f_code.co_name)
        tb = tb.tb_next
    return last


class Outcome(object):
    """result of calling into the SUT: either .value or .exc (with class name and frame)"""
    __slots__ = ('ok', 'value', 'exc', 'exc_type', 'frame', 'msg')

    def __repr__(self):
        return 'OK' if self.ok else '%s@%s: %s' % (self.exc_type, self.frame, self.msg)


def call(fn, *a, **kw):
    o = Outcome()
    try:
        o.value = fn(*a, **kw)
        o.ok = True
        o.exc = None
        o.exc_type = None
        o.frame = None
        o.msg = None
    except BaseException as e:
        if isinstance(e, (KeyboardInterrupt, SystemExit, MemoryError)):
            raise
        o.ok = False
        o.value = None
        o.exc = e
        o.exc_type = type(e).__name__
        o.frame = innermost_sut_frame(e.__traceback__)
        o.msg = str(e)[:200]
    return o


def observe(msg):
    """values, labels, links of a decoded / encoded BufrMessage"""
    td = msg.template_data.value
    return {
        'values': [list(v) for v in td.decoded_values_all_subsets],
        'labels': [[str(d) for d in ds] for ds in td.decoded_descriptors_all_subsets],
        'links': [dict(l) for l in td.bitmap_links_all_subsets],
    }


def norm_json(x):
    """what a user gets after json.dumps(render, **JSON_DUMPS_KWARGS)"""
    import json
    return json.loads(json.dumps(x, **pbk_utils.JSON_DUMPS_KWARGS))


def nested_template_data(msg):
    """the per-subset hierarchical view (nested JSON) of a wired message"""
    nj = NestedJsonRenderer().render(msg)
    for sec in nj:
        for par in sec:
            if par['name'] == 'template_data':
                return norm_json(par['value'])
    return None


class debug_logging(object):
    """the root logger at DEBUG while the block runs -- what the documented `pybufrkit --debug` option (or
    logging.basicConfig(level=logging.DEBUG) in a program that uses the library) sets up; records go nowhere"""
    _null = logging.NullHandler()

    def __enter__(self):
        self.level = logging.root.level
        logging.root.addHandler(self._null)
        logging.root.setLevel(logging.DEBUG)

    def __exit__(self, *a):
        logging.root.setLevel(self.level)
        logging.root.removeHandler(self._null)
        return False
