"""Runner: seeds, sharding over processes, collect-then-shrink, replay files, evidence,
VIOLATION / KNOWN-FINDING lines and exit codes.

Exit codes: 0 nothing (unlisted) found; 1 at least one unlisted violation; 2 harness error.
"""
from __future__ import print_function

import hashlib
import json
import multiprocessing
import os
import sys
import time
import traceback
from collections import Counter

import hypothesis
from hypothesis import HealthCheck, Phase, given, settings, strategies as st

from .choose import Chooser, shrink_choices

VERIF = os.path.dirname(os.path.dirname(os.path.abspath(__file__)))
# the two output directories can be redirected (sensitivity runs against scratch copies of the
# repository must not overwrite the evidence of the real tree)
EVIDENCE_DIR = os.environ.get('VERIF_EVIDENCE_DIR') or os.path.join(VERIF, 'evidence')
REPLAY_DIR = os.environ.get('VERIF_REPLAY_DIR') or os.path.join(VERIF, 'replays')
CORPUS_DIR = os.path.join(VERIF, 'corpus')
KNOWN_FINDINGS = os.path.join(VERIF, 'known_findings.txt')


class Reject(Exception):
    """a generated case outside the property's domain; counted under 'excluded'"""


class HarnessError(Exception):
    pass


class Outcome(object):
    """what a check function returns for one case"""

    def __init__(self):
        self.failures = []      # [(clause, detail)]
        self.nontrivial = False
        self.classes = []

    def fail(self, clause, **detail):
        self.failures.append((clause, detail))
        return self


def jsonable(x):
    if isinstance(x, (bytes, bytearray)):
        return {'hex': bytes(x).hex()}
    if isinstance(x, dict):
        return {str(k): jsonable(v) for k, v in x.items()}
    if isinstance(x, (list, tuple, set, frozenset)):
        return [jsonable(v) for v in (sorted(x, key=repr) if isinstance(x, (set, frozenset)) else x)]
    if isinstance(x, float):
        if x != x or x in (float('inf'), float('-inf')):
            return repr(x)
        return x
    if isinstance(x, (int, str, bool)) or x is None:
        return x
    return repr(x)


class Report(object):
    def __init__(self, pid, tier, seed, level='exploration'):
        self.pid = pid
        self.tier = tier
        self.seed = seed
        self.level = level
        self.t0 = time.time()
        self.evaluations = 0
        self.keys = set()
        self.nontrivial = set()
        self.classes = Counter()
        self.excluded = Counter()
        self.samples = []
        self.failures = {}        # clause -> dict(detail, case, choices, stage)
        self.failure_counts = Counter()
        self.harness_errors = []
        self.rule = ''
        self.assumptions = []
        self.extra = {}
        self.exhaustive = None
        self.known_lines = []
        self.required_classes = []
        # bulk enumerations (millions of distinct cells) are counted, not stored as keys
        self.bulk_distinct = 0
        self.bulk_nontrivial = 0

    # -- accumulation --------------------------------------------------------------------
    def add_case(self, key, nontrivial, classes=(), sample=None):
        self.evaluations += 1
        self.keys.add(key)
        if nontrivial:
            self.nontrivial.add(key)
        for c in classes:
            self.classes[c] += 1
        if sample is not None and len(self.samples) < 8:
            self.samples.append(sample)

    def add_bulk(self, n, n_nontrivial, classes=None):
        """n distinct enumerated cells of which n_nontrivial are non-trivial"""
        self.evaluations += n
        self.bulk_distinct += n
        self.bulk_nontrivial += n_nontrivial
        for c, k in (classes or {}).items():
            self.classes[c] += k

    def add_failure(self, clause, detail, case=None, choices=None, stage=''):
        self.failure_counts[clause] += 1
        if clause not in self.failures:
            self.failures[clause] = {'detail': detail, 'case': case, 'choices': choices, 'stage': stage}

    def merge_worker(self, w):
        self.evaluations += w['evaluations']
        self.keys |= w['keys']
        self.nontrivial |= w['nontrivial']
        self.classes.update(w['classes'])
        self.excluded.update(w['excluded'])
        for s in w['samples']:
            if len(self.samples) < 8:
                self.samples.append(s)
        for clause, f in w['failures'].items():
            self.failure_counts[clause] += w['failure_counts'][clause]
            if clause not in self.failures:
                self.failures[clause] = f
        self.harness_errors.extend(w['harness_errors'])

    # -- finishing -----------------------------------------------------------------------
    def finish(self, signatures=None):
        """Write replay files and evidence, print the result lines, return the exit code."""
        signatures = signatures or {}
        known = load_known_findings(self.pid)
        violations = 0
        out_lines = []
        known_counts, known_text = {}, {}
        for line in self.known_lines:
            out_lines.append(line)
        for clause in sorted(self.failures):
            f = self.failures[clause]
            matched = None
            for k in known:
                pred = signatures.get(k['signature'])
                if pred is not None and pred(clause, f):
                    matched = k
                    break
            if matched is not None:
                known_counts[matched['id']] = known_counts.get(matched['id'], 0) + self.failure_counts[clause]
                known_text[matched['id']] = matched['text']
                continue
            path = write_replay(self.pid, clause, f)
            violations += 1
            out_lines.append('VIOLATION property=%s replay=%s' % (self.pid, path))
            out_lines.append('  clause: %s  (%d cases)  detail: %s' % (
                clause, self.failure_counts[clause], json.dumps(jsonable(f['detail']))[:600]))
        for kid in sorted(known_counts):
            out_lines.insert(0, 'KNOWN-FINDING: property=%s %s (%s, %d cases)' % (self.pid, known_text[kid], kid, known_counts[kid]))
        self.extra['known_findings_seen'] = dict(known_counts)
        missing = [c for c in self.required_classes if self.classes.get(c, 0) == 0]
        if missing:
            # a class the property names that the generator did not reach: a generator defect in the thorough tier;
            # in the quick tier (30x fewer cases) only recorded, so that a statistical fluctuation is not an alarm
            self.extra['required_classes_not_reached'] = missing
            if self.tier == 'thorough':
                self.harness_errors.append('generator never produced required classes: %s' % missing)
            else:
                print('NOTE property=%s classes not reached in this quick run: %s' % (self.pid, missing), file=sys.stderr)
        self.write_evidence(violations)
        for line in out_lines:
            print(line)
        if self.harness_errors:
            for h in self.harness_errors[:5]:
                print('HARNESS-ERROR property=%s %s' % (self.pid, h), file=sys.stderr)
            if not violations:
                return 2
        print('%s %s tier=%s seed=%d evaluations=%d distinct_nontrivial=%d violations=%d wall=%.1fs' % (
            'FAIL' if violations else 'ok', self.pid, self.tier, self.seed, self.evaluations,
            len(self.nontrivial) + self.bulk_nontrivial, violations, time.time() - self.t0))
        return 1 if violations else 0

    def write_evidence(self, violations):
        os.makedirs(EVIDENCE_DIR, exist_ok=True)
        cov = {
            'evaluations': self.evaluations,
            'distinct_nontrivial': len(self.nontrivial) + self.bulk_nontrivial,
            'distinct': len(self.keys) + self.bulk_distinct,
            'rule': self.rule,
            'samples': jsonable(self.samples),
            'classes': dict(sorted(self.classes.items())),
            'excluded': dict(sorted(self.excluded.items())),
            'failure_buckets': dict(self.failure_counts),
        }
        if self.exhaustive is not None:
            cov['exhaustive'] = self.exhaustive
        cov.update(jsonable(self.extra))
        ev = {
            'property_id': self.pid,
            'tier': self.tier,
            'seed': self.seed,
            'level': self.level,
            'coverage': cov,
            'assumptions': self.assumptions,
            'wall_s': round(time.time() - self.t0, 2),
            'violations': violations,
        }
        tmp = os.path.join(EVIDENCE_DIR, self.pid + '.json.tmp')
        with open(tmp, 'w') as f:
            json.dump(ev, f, indent=1, sort_keys=True)
        os.replace(tmp, os.path.join(EVIDENCE_DIR, self.pid + '.json'))


def write_replay(pid, clause, f):
    d = os.path.join(REPLAY_DIR, pid)
    os.makedirs(d, exist_ok=True)
    body = {'property': pid, 'clause': clause, 'detail': jsonable(f['detail']), 'case': jsonable(f['case']),
            'choices': f.get('choices'), 'stage': f.get('stage', '')}
    s = json.dumps(body, indent=1, sort_keys=True)
    h = hashlib.sha1(s.encode()).hexdigest()[:12]
    path = os.path.join(d, h + '.json')
    with open(path, 'w') as fh:
        fh.write(s)
    return path


def load_known_findings(pid):
    out = []
    if not os.path.exists(KNOWN_FINDINGS):
        return out
    for line in open(KNOWN_FINDINGS):
        line = line.strip()
        if not line.startswith('open:'):
            continue
        fields = dict(tok.split('=', 1) for tok in line.split()[1:5] if '=' in tok)
        if fields.get('property') != pid:
            continue
        text = line.split(None, 5)[5] if len(line.split(None, 5)) > 5 else ''
        out.append({'id': fields.get('id'), 'signature': fields.get('signature'),
                    'probe': fields.get('probe'), 'text': text})
    return out


# ---------------------------------------------------------------------------------------
# generated search, sharded over processes
_JOB = {}


def _derive_seed(seed, shard):
    return int(hashlib.sha1(('%d/%d' % (seed, shard)).encode()).hexdigest()[:12], 16)


def _worker(args):
    shard, n_cases, seed = args
    gen_fn = _JOB['gen']
    check_fn = _JOB['check']
    stage = _JOB['stage']
    w = {'evaluations': 0, 'keys': set(), 'nontrivial': set(), 'classes': Counter(), 'excluded': Counter(),
         'samples': [], 'failures': {}, 'failure_counts': Counter(), 'harness_errors': []}
    budget_s = _JOB.get('budget_s')
    t_end = time.time() + budget_s if budget_s else None

    def one(ch):
        if t_end is not None and time.time() > t_end:
            w['excluded']['time budget reached'] += 1
            return
        try:
            case = gen_fn(ch)
        except Reject as e:
            w['excluded'][str(e)[:70]] += 1
            return
        try:
            out = check_fn(case)
        except Reject as e:
            w['excluded'][str(e)[:70]] += 1
            return
        key = case.key()
        w['evaluations'] += 1
        w['keys'].add(key)
        if out.nontrivial:
            w['nontrivial'].add(key)
        for c in out.classes:
            w['classes'][c] += 1
        if len(w['samples']) < 2 and out.nontrivial:
            w['samples'].append(case.summary())
        for clause, detail in out.failures:
            w['failure_counts'][clause] += 1
            if clause not in w['failures']:
                w['failures'][clause] = {'detail': detail, 'case': case.to_json(),
                                         'choices': list(ch.record), 'stage': stage}

    @hypothesis.seed(_derive_seed(seed, shard))
    @settings(max_examples=n_cases, phases=[Phase.generate], database=None, deadline=None,
              derandomize=False, report_multiple_bugs=False,
              suppress_health_check=list(HealthCheck))
    @given(st.data())
    def test(data):
        one(Chooser(data=data))

    try:
        test()
    except Exception:
        w['harness_errors'].append('shard %d: %s' % (shard, traceback.format_exc().split('Failing test case')[0][-1200:]))
    return w


def run_generated(report, gen_fn, check_fn, n_cases, workers, stage='generated', shrink_s=20,
                  budget_s=None):
    """Search n_cases generated cases over `workers` processes, then shrink one case per
    failure bucket (time boxed) by re-running generator + check on reduced choice lists."""
    _JOB.update({'gen': gen_fn, 'check': check_fn, 'stage': stage, 'budget_s': budget_s})
    workers = max(1, min(workers, n_cases))
    per = [n_cases // workers + (1 if i < n_cases % workers else 0) for i in range(workers)]
    args = [(i, per[i], report.seed) for i in range(workers) if per[i] > 0]
    if workers == 1:
        results = [_worker(a) for a in args]
    else:
        ctx = multiprocessing.get_context('fork')
        with ctx.Pool(len(args)) as pool:
            results = pool.map(_worker, args)
    new_clauses = []
    for w in results:
        for clause in w['failures']:
            if clause not in report.failures and clause not in new_clauses:
                new_clauses.append(clause)
        report.merge_worker(w)
    # shrink
    for clause in new_clauses[:6]:
        f = report.failures[clause]
        if not f.get('choices'):
            continue
        deadline = time.time() + shrink_s

        def still_fails(cand, clause=clause):
            ch = Chooser(replay=cand)
            try:
                case = gen_fn(ch)
            except Reject:
                return False
            except Exception:
                return False
            try:
                out = check_fn(case)
            except Reject:
                return False
            for c2, d2 in out.failures:
                if c2 == clause:
                    still_fails.last = (case, d2, list(ch.record))
                    return True
            return False
        still_fails.last = None
        try:
            shrink_choices(f['choices'], still_fails, deadline, time.time)
        except Exception:
            report.harness_errors.append('shrinking %s: %s' % (clause, traceback.format_exc()[-800:]))
        if still_fails.last is not None:
            case, detail, rec = still_fails.last
            f['case'] = case.to_json()
            f['detail'] = detail
            f['choices'] = rec
            f['shrunk'] = True


# ---------------------------------------------------------------------------------------
# enumerated search
def _enum_worker(chunk):
    fn = _JOB['enum_fn']
    res = []
    for item in chunk:
        res.append(fn(item))
    return res


def run_enumerated(items, fn, workers, chunk=200):
    """Apply fn to every item over a process pool (fn must return something picklable)."""
    _JOB['enum_fn'] = fn
    items = list(items)
    chunks = [items[i:i + chunk] for i in range(0, len(items), chunk)]
    if workers <= 1 or len(chunks) <= 1:
        out = []
        for c in chunks:
            out.extend(_enum_worker(c))
        return out
    ctx = multiprocessing.get_context('fork')
    out = []
    with ctx.Pool(min(workers, len(chunks))) as pool:
        for r in pool.imap(_enum_worker, chunks):
            out.extend(r)
    return out


def corpus_files(pid):
    d = os.path.join(CORPUS_DIR, pid)
    if not os.path.isdir(d):
        return []
    return [os.path.join(d, f) for f in sorted(os.listdir(d)) if f.endswith('.json')]


def tier_workers(tier):
    env = os.environ.get('VERIF_WORKERS')
    if env:
        return int(env)
    return 8 if tier == 'quick' else 16
