"""The repository's sample corpus: files and the messages they contain (split by the
reference's strict frame parser, not by the code under test)."""
import os

from refbufr import frame, IllFormed, REPO

DIRS = [os.path.join(REPO, 'tests', 'data'), os.path.join(REPO, 'tests', 'benchmark_data')]
SKIP_FILES = {'multi_invalid_messages.bufr', 'prepbufr.bufr'}   # damaged on purpose / table definitions (C12, C20)


def files():
    out = []
    for d in DIRS:
        if not os.path.isdir(d):
            continue
        for f in sorted(os.listdir(d)):
            if f.endswith('.bufr') and f not in SKIP_FILES:
                out.append(os.path.join(d, f))
    return out


def split(data):
    """[(offset, bytes)] of the well-framed messages in data"""
    out = []
    i = 0
    while True:
        i = data.find(b'BUFR', i)
        if i < 0:
            break
        try:
            p = frame.parse(data, i)
        except IllFormed:
            i += 1
            continue
        out.append((i, p.bytes))
        i += p.total
    return out


def messages(stride=1, offset=0, limit=None):
    """[(file, index, bytes)] -- every stride-th message"""
    out = []
    k = 0
    for f in files():
        with open(f, 'rb') as fh:
            data = fh.read()
        for j, (off, b) in enumerate(split(data)):
            if k % stride == offset % stride:
                out.append((os.path.relpath(f, REPO), j, b))
            k += 1
    if limit:
        out = out[:limit]
    return out
