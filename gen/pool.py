"""Element / sequence pools per table selection, bucketed so every kind and width class is
reachable by a generator with a handful of choices."""
from refbufr import tables as rtables, tree as rtree

_POOLS = {}

WIDTH_BUCKETS = [(1, 1), (2, 4), (5, 8), (9, 16), (17, 32)]


class SeqInfo(object):
    __slots__ = ('id', 'n_fields_min', 'n_expanded', 'has_delayed', 'has_operator', 'has_amb_code',
                 'has_class31', 'min_num_bits', 'has_string', 'supported', 'has_replication')


class Pool(object):
    def __init__(self, tables, max_expanded=60):
        self.tables = tables
        B = tables.B
        self.num = {}      # bucket index -> [id]   (class not 31, not 33)
        self.code = {}
        self.strs = []
        self.class33 = []
        self.class1to9 = []   # elements of class 1..9 (kept by 221)
        self.non1to9 = []     # elements not of class 1..9/31 (dropped by 221), non-string or string
        self.num_neg_scale = []
        self.num_neg_ref = []
        self.num_all = []
        for id_, e in sorted(B.items()):
            x = id_ // 1000
            if x == 0 or x == 31:
                continue
            if e.sut_numeric_codeish:
                continue      # DESIGN 10-2: non-canonical unit spelling, kept out of the pool
            if e.nbits < 1:
                continue
            if x == 33:
                if e.kind != 'str':
                    self.class33.append(id_)
                continue
            if e.kind == 'str':
                if e.nbits % 8 == 0 and 8 <= e.nbits <= 8 * 32:
                    self.strs.append(id_)
            else:
                if e.nbits > 32:
                    continue
                for bi, (lo, hi) in enumerate(WIDTH_BUCKETS):
                    if lo <= e.nbits <= hi:
                        (self.num if e.kind == 'num' else self.code).setdefault(bi, []).append(id_)
                if e.kind == 'num':
                    self.num_all.append(id_)
                    if e.scale < 0:
                        self.num_neg_scale.append(id_)
                    if e.ref < 0:
                        self.num_neg_ref.append(id_)
            if 1 <= x <= 9:
                self.class1to9.append(id_)
            else:
                self.non1to9.append(id_)
        self.seqs = []
        self.seqinfo = {}
        cache = {}
        for sid in sorted(tables.D):
            info = self._seq_info(sid, cache)
            self.seqinfo[sid] = info
            if info.supported and 1 <= info.n_expanded <= max_expanded:
                self.seqs.append(sid)
        # small sequences with the numeric elements (not class 31) they reach: for 203YYY over a member of a sequence
        self.small_seq_numeric = {}
        for sid in self.seqs:
            if self.seqinfo[sid].n_expanded <= 16:
                nums = sorted(set(self._numeric_members(sid, set())))
                if nums:
                    self.small_seq_numeric[sid] = nums
        # undefined local element ids for 206
        self.local_undefined = [i for i in (48001, 50200, 63255, 1192 + 60000) if i not in B]

    def _numeric_members(self, sid, seen):
        out = []
        for i in self.tables.D[sid][1]:
            f = i // 100000
            if f == 3 and i in self.tables.D and i not in seen:
                out.extend(self._numeric_members(i, seen | {i}))
            elif f == 0 and i in self.tables.B and i // 1000 not in (0, 31):
                e = self.tables.B[i]
                if e.kind == 'num' and not e.sut_numeric_codeish and 1 <= e.nbits <= 32:
                    out.append(i)
        return out

    def _seq_info(self, sid, cache):
        info = SeqInfo()
        info.id = sid
        try:
            nodes = rtree.parse([sid], self.tables, _seq_cache=cache)
        except Exception:
            info.supported = False
            info.n_expanded = 0
            return info
        st = {'n': 0, 'minf': 0, 'delayed': False, 'op': False, 'amb': False, 'c31': False,
              'minbits': 99, 'str': False, 'ok': True, 'rep': False}

        def visit(nds, mult):
            for nd in nds:
                if nd.t == 'E':
                    st['n'] += 1
                    st['minf'] += mult
                    e = nd.elem
                    if e.sut_numeric_codeish:
                        st['amb'] = True
                    if nd.id // 1000 == 31:
                        st['c31'] = True
                    if e.kind == 'num':
                        st['minbits'] = min(st['minbits'], e.nbits)
                    if e.kind == 'str':
                        st['str'] = True
                        if e.nbits % 8:
                            st['ok'] = False
                    if e.nbits < 1:
                        st['ok'] = False
                elif nd.t == 'O':
                    st['op'] = True
                    st['n'] += 1
                elif nd.t == 'S':
                    visit(nd.members, mult)
                elif nd.t == 'R':
                    st['rep'] = True
                    st['n'] += 1
                    if nd.count > 8:
                        st['ok'] = False
                    visit(nd.members, mult * nd.count)
                elif nd.t == 'D':
                    st['rep'] = True
                    st['delayed'] = True
                    st['c31'] = True
                    st['n'] += 2
                    st['minf'] += mult
                    if nd.factor.t != 'E' or nd.factor.id in (31011, 31012):
                        st['ok'] = False
                    visit(nd.members, 0)
                else:
                    st['ok'] = False
        visit(nodes, 1)
        info.supported = st['ok'] and not st['op']   # sequences with operators are exercised through C08/C14 and the corpus
        info.n_expanded = st['n']
        info.n_fields_min = st['minf']
        info.has_delayed = st['delayed']
        info.has_operator = st['op']
        info.has_amb_code = st['amb']
        info.has_class31 = st['c31']
        info.min_num_bits = st['minbits']
        info.has_string = st['str']
        info.has_replication = st['rep']
        return info


def pool_for(master_version=33, centre=0, subcentre=0, local_version=0, max_expanded=60):
    key = (master_version, centre, subcentre, local_version, max_expanded)
    if key not in _POOLS:
        t = rtables.load_for(0, centre, subcentre, master_version, local_version)
        _POOLS[key] = Pool(t, max_expanded)
    return _POOLS[key]


_OVERRIDES = {}


def override_sequences(master_version, local):
    """Sequences of the WMO Table D of `master_version` that reach -- directly or through nested sequences -- an
    element or sequence which the local table `local` = (centre, sub-centre, version) defines differently; usable
    with and without the local table (supported by the reference walker under both).  The two table groups share
    the master version and differ only in the local part."""
    key = (master_version, local)
    if key in _OVERRIDES:
        return _OVERRIDES[key]
    wmo, loc = pool_for(master_version, max_expanded=300), pool_for(master_version, *local, max_expanded=300)
    tw, tl = wmo.tables, loc.tables
    if tl.local_sn is None:
        _OVERRIDES[key] = []
        return []
    changed = set(i for i in tl.B if i in tw.B and tl.B[i][2:6] != tw.B[i][2:6])
    changed |= set(i for i in tl.D if i in tw.D and tl.D[i][1] != tw.D[i][1])

    def reaches(ids, depth, seen):
        for i in ids:
            if i in changed:
                return True
            if i // 100000 == 3 and i in tw.D and i not in seen:
                if reaches(tw.D[i][1], depth + 1, seen | {i}):
                    return True
        return False
    both = set(loc.seqs)
    out = [sid for sid in wmo.seqs if sid in both and sid not in changed and reaches(tw.D[sid][1], 1, {sid})]
    _OVERRIDES[key] = out
    return out


_VDIFF = {}


def version_diff_elements(v1, v2):
    """numeric elements that both master table versions define with the same width but another scale or reference
    value (the same bits mean another number)"""
    key = (v1, v2)
    if key not in _VDIFF:
        a, b = pool_for(v1).tables.B, pool_for(v2).tables.B
        _VDIFF[key] = [i for i in sorted(a) if i in b and a[i].kind == 'num' and b[i].kind == 'num' and a[i].nbits == b[i].nbits
                       and (a[i].scale, a[i].ref) != (b[i].scale, b[i].ref) and i // 1000 not in (0, 31)
                       and not a[i].sut_numeric_codeish and not b[i].sut_numeric_codeish and 1 <= a[i].nbits <= 32]
    return _VDIFF[key]


_VCHG = {}


def version_changed_elements(v1, v2):
    """numeric elements that both master table versions define, with another width, scale or reference value"""
    key = (v1, v2)
    if key not in _VCHG:
        a, b = pool_for(v1).tables.B, pool_for(v2).tables.B
        _VCHG[key] = [i for i in sorted(a) if i in b and a[i].kind == 'num' and b[i].kind == 'num'
                      and (a[i].nbits, a[i].scale, a[i].ref) != (b[i].nbits, b[i].scale, b[i].ref) and i // 1000 not in (0, 31)
                      and not a[i].sut_numeric_codeish and not b[i].sut_numeric_codeish and 2 <= min(a[i].nbits, b[i].nbits)
                      and max(a[i].nbits, b[i].nbits) <= 32]
    return _VCHG[key]
