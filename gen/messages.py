"""Message cases: template x values x subsets x compression x edition x metadata, with the
bytes built by the reference model."""
import hashlib
import json

from refbufr import frame, codec, tables as rtables, tree as rtree, IllFormed, Unsupported
from refbufr.codec import GivenSource
from . import pool as gpool, templates as gtemplates
from .values import GenSource, source_for

QUICK_VERSIONS = [13, 19, 25, 33, 40]
LOCAL_CHOICES = [(98, 0, 1), (98, 0, 101), (98, 0, 2), (98, 0, 3)]


from vlib.runner import Reject   # noqa: E402  (a generated case outside the property's domain)


class Case(object):
    def __init__(self):
        self.meta = None
        self.ids = None
        self.decoded = None
        self.extra_widths = None
        self.ones_by_sum = None     # compressed: per field, missing entries written as minimum + difference = all ones
        self.bytes = None
        self.info = None
        self.features = set()
        self.tables = None
        self.tree = None

    # ---- derived views ------------------------------------------------------------------
    @property
    def nsub(self):
        return self.meta['n_subsets']

    @property
    def compressed(self):
        return self.meta['is_compressed']

    def values(self):
        return [self.decoded.values_of(i) for i in range(self.nsub)]

    def labels(self):
        return [self.decoded.labels_of(i) for i in range(self.nsub)]

    def links(self):
        return [dict(self.decoded.links_of(i)) for i in range(self.nsub)]

    def raw_matrix(self):
        """per subset, the list of raw values (bytes as latin-1 str with a marker)"""
        out = []
        for i in range(self.nsub):
            fs = self.decoded.fields_of(i)
            out.append([self.decoded.raw(i, k) for k in range(len(fs))])
        return out

    def key(self):
        h = hashlib.sha1()
        h.update(repr((sorted(self.meta.items(), key=lambda kv: kv[0]), self.ids, self.extra_widths, self.ones_by_sum)).encode())
        h.update(repr(self.raw_matrix()).encode())
        return h.hexdigest()[:20]

    # ---- (de)serialisation for replay files -------------------------------------------------
    def to_json(self):
        def enc(x):
            return {'hex': x.hex()} if isinstance(x, (bytes, bytearray)) else x
        meta = dict(self.meta)
        meta['section2'] = enc(meta['section2']) if meta.get('section2') is not None else None
        if self.compressed:
            cols = [[enc(r) for r in f.raws] for f in self.decoded.subsets[0].fields if f.kind != 'const']
            raws = {'columns': cols}
        else:
            raws = {'subsets': [[enc(f.raws[0]) for f in w.fields if f.kind != 'const']
                                for w in self.decoded.subsets]}
        return {'meta': meta, 'ids': self.ids, 'raws': raws, 'extra_widths': self.extra_widths,
                'ones_by_sum': self.ones_by_sum,
                'bytes_hex': self.bytes.hex() if self.bytes is not None else None,
                'features': sorted(self.features)}

    @staticmethod
    def from_json(d):
        def dec(x):
            return bytes.fromhex(x['hex']) if isinstance(x, dict) else x
        meta = dict(d['meta'])
        if meta.get('section2') is not None:
            meta['section2'] = dec(meta['section2'])
        c = Case()
        c.meta = meta
        c.ids = list(d['ids'])
        c.extra_widths = d.get('extra_widths')
        c.ones_by_sum = d.get('ones_by_sum')
        c.tables = tables_of_meta(meta)
        c.tree = rtree.parse(c.ids, c.tables)
        if meta['is_compressed']:
            cols = [[dec(r) for r in col] for col in d['raws']['columns']]
            src = GivenSource(cols)
            c.decoded = codec.walk_all(c.tree, c.tables, meta['n_subsets'], True, lambda i: src)
        else:
            subs = d['raws']['subsets']
            c.decoded = codec.walk_all(c.tree, c.tables, meta['n_subsets'], False,
                                       lambda i: GivenSource([[dec(r)] for r in subs[i]]))
        c.features = set(d.get('features', [])) | c.decoded.features()
        build_bytes(c)
        return c

    def summary(self):
        """short human-readable form for evidence samples"""
        return {'edition': self.meta['edition'], 'master_table_version': self.meta['master_table_version'],
                'local_table_version': self.meta['local_table_version'],
                'compressed': self.compressed, 'n_subsets': self.nsub,
                'descriptors': ['%06d' % i for i in self.ids],
                'n_values_subset0': len(self.decoded.fields_of(0)) if self.nsub else 0,
                'features': sorted(self.features), 'n_bytes': len(self.bytes) if self.bytes else None}


def case_from_raws(meta, ids, columns=None, subsets=None, extra_widths=None, tables=None):
    """Build a case from explicit raw values: `columns` (compressed: one list per field,
    one entry per subset) or `subsets` (uncompressed: one list of raws per subset).
    Constant entries (operator place holders) are not part of the lists."""
    c = Case()
    c.meta = dict(meta)
    c.ids = list(ids)
    c.extra_widths = extra_widths
    c.tables = tables if tables is not None else tables_of_meta(c.meta)     # tables: a private tables root (vlib.privtables)
    c.tree = rtree.parse(c.ids, c.tables)
    if c.meta['is_compressed']:
        src = GivenSource([list(col) for col in columns])
        c.decoded = codec.walk_all(c.tree, c.tables, c.meta['n_subsets'], True, lambda i: src)
    else:
        c.decoded = codec.walk_all(c.tree, c.tables, c.meta['n_subsets'], False,
                                   lambda i: GivenSource([[r] for r in subsets[i]]))
    c.features = c.decoded.features()
    c.features.add('edition%d' % c.meta['edition'])
    c.features.add('compressed' if c.meta['is_compressed'] else 'uncompressed')
    build_bytes(c)
    return c


def recompress(case, compressed):
    """The same data stored the other way (only for cases whose subsets share one structure)."""
    meta = dict(case.meta)
    meta['is_compressed'] = compressed
    n = case.nsub
    nfields = len(case.decoded.fields_of(0))
    if compressed:
        cols = []
        for k in range(nfields):
            if case.decoded.fields_of(0)[k].kind == 'const':
                continue
            cols.append([case.decoded.raw(i, k) for i in range(n)])
        return case_from_raws(meta, case.ids, columns=cols)
    subs = []
    for i in range(n):
        fs = case.decoded.fields_of(i)
        subs.append([case.decoded.raw(i, k) for k in range(len(fs)) if fs[k].kind != 'const'])
    return case_from_raws(meta, case.ids, subsets=subs)


def tables_of_meta(meta):
    return rtables.load(*rtables.select(meta.get('master_table_number', 0), meta['originating_centre'],
                                        meta.get('originating_subcentre', 0), meta['master_table_version'],
                                        meta['local_table_version']))


def build_bytes(case, surplus=None, declared=None, declared_total=None):
    bits = codec.data_bits(case.decoded, case.extra_widths, case.ones_by_sum)
    case.data_bits = bits
    case.bytes, case.info = frame.build(case.meta, case.ids, bits, surplus, declared, declared_total)
    return case.bytes


def gen_meta(ch, edition, master_version, local):
    m = frame.default_meta(edition)
    m['master_table_version'] = master_version
    if local is not None:
        m['originating_centre'], m['originating_subcentre'], m['local_table_version'] = local
        if edition == 2:
            m['originating_subcentre'] = 0
    else:
        m['originating_centre'] = ch.weighted([(3, 0), (1, 98), (1, 7), (1, 254)])
        m['originating_subcentre'] = ch.weighted([(3, 0), (1, 1), (1, 255)]) if edition >= 3 else 0
        m['local_table_version'] = 0
    if ch.bool(1, 2):
        m['update_sequence_number'] = ch.int(0, 255)
        m['data_category'] = ch.choice([0, 1, 2, 12, 255, 10])   # never 11 (table definitions)
        m['data_local_subcategory'] = ch.int(0, 255)
        m['data_i18n_subcategory'] = ch.int(0, 255)
        m['month'] = ch.int(1, 12)
        m['day'] = ch.int(1, 28)
        m['hour'] = ch.int(0, 23)
        m['minute'] = ch.int(0, 59)
        m['second'] = ch.int(0, 59)
        m['year'] = ch.int(1950, 2100) if edition >= 4 else ch.int(0, 99)
        m['is_observation'] = ch.bool()
    if ch.bool(1, 4):
        n = ch.weighted([(2, 1), (1, 2), (1, 4), (1, 9)])
        m['section2'] = ch.choice([b'BUFR', b'7777', b'\x00', b'local', b'\xff\xfe'])[:n].ljust(n, b'x')
    return m


class GenOpts(object):
    def __init__(self, tier='quick', **kw):
        self.tier = tier
        self.editions = [4, 3, 2]
        self.compressed = None          # None: either; True / False to force
        self.min_subsets = 1
        self.max_subsets = 4 if tier == 'quick' else 12
        self.versions = QUICK_VERSIONS if tier == 'quick' else None
        self.local_tables = True
        self.template = gtemplates.Opts(max_ids=20 if tier == 'quick' else 40)
        self.extra_widths = True
        self.ones_by_sum = 'codeflag'   # None / 'codeflag' (code, flag, associated, skipped fields) / 'all' (numeric too)
        self.max_fields = 250
        self.__dict__.update(kw)


def gen_case(ch, opts, fixed=None):
    """Build one message case from the choice sequence.  Raises Reject for draws that fall
    outside the domain (ill-formed by the reference's rules).  `fixed` = (master version, local table or None,
    descriptor list) pins the table selection and the template; only metadata and values are drawn."""
    versions = opts.versions or rtables.available_master_versions()
    if fixed is not None:
        mv, local = fixed[0], fixed[1]
    else:
        mv = ch.choice(versions)
        local = None
        if opts.local_tables and ch.bool(1, 6):
            local = ch.choice(LOCAL_CHOICES)
    edition = ch.choice(opts.editions)
    meta = gen_meta(ch, edition, mv, local)
    if fixed is not None and local is None:
        meta['originating_centre'] = meta['originating_subcentre'] = 0
    pl = gpool.pool_for(mv, meta['originating_centre'] if local else 0,
                        meta['originating_subcentre'] if local else 0,
                        meta['local_table_version'])
    if fixed is not None:
        ids, tfeat = list(fixed[2]), set()
    else:
        ids, tfeat = gtemplates.gen_template(ch, pl, opts.template)
    compressed = opts.compressed if opts.compressed is not None else ch.bool(2, 5)
    nsub = ch.int(opts.min_subsets, opts.max_subsets)
    meta['n_subsets'] = nsub
    meta['is_compressed'] = compressed
    c = Case()
    c.meta = meta
    c.ids = ids
    c.tables = pl.tables
    try:
        c.tree = rtree.parse(ids, c.tables)
        src = source_for(ch, tfeat)
        c.decoded = codec.walk_all(c.tree, c.tables, nsub, compressed, lambda i: src)
    except (IllFormed, Unsupported) as e:
        raise Reject('illformed: %s' % e)
    amb = c.decoded.ambiguous()
    if amb:
        raise Reject('ambiguous: %s' % amb[0])
    if max(len(c.decoded.fields_of(i)) for i in range(nsub)) > opts.max_fields:
        raise Reject('too many fields')
    if compressed and opts.extra_widths and ch.bool(1, 3):
        fs = c.decoded.subsets[0].fields
        c.extra_widths = [ch.weighted([(5, 0), (1, 1), (1, 2), (1, 3), (1, 60)]) for _ in fs]
    if compressed and opts.ones_by_sum and nsub > 1 and ch.bool(1, 3):
        kinds = ('code', 'assoc', 'skip') if opts.ones_by_sum == 'codeflag' else ('code', 'assoc', 'skip', 'num')
        fs = c.decoded.subsets[0].fields
        def canonical(f):
            # a code table whose unit text is not one of the two canonical spellings is numeric to the library (DESIGN 10-2)
            e = c.tables.B.get(f.elem_id) if f.kind == 'code' else None
            return e is None or not e.sut_numeric_codeish
        flags = [f.kind in kinds and f.role == 'data' and f.nbits > 1 and any(f.is_missing_raw(x) for x in f.raws)
                 and not all(f.is_missing_raw(x) for x in f.raws) and canonical(f) and ch.bool(2, 3) for f in fs]
        if any(flags):
            c.ones_by_sum = flags
            tfeat = set(tfeat) | {'missing_written_as_sum'}
    c.features = set(tfeat) | c.decoded.features()
    c.features.add('edition%d' % edition)
    c.features.add('compressed' if compressed else 'uncompressed')
    if meta.get('section2') is not None:
        c.features.add('section2')
    if local:
        c.features.add('local_table')
    build_bytes(c)
    return c


_OPSEQS = {}


def operator_sequences(mv):
    """Table D sequences of one master version that hold operators (201-208, 221, 222-237 ...) somewhere in their expansion and
    expand to at most 150 descriptors -- kept out of the random template grammar (the operators they contain would have to
    be tracked by the generator's context), used as templates of their own"""
    if mv not in _OPSEQS:
        pl = gpool.pool_for(mv)
        seqs = sorted(s for s, i in pl.seqinfo.items() if getattr(i, 'has_operator', False) and 1 <= getattr(i, 'n_expanded', 0) <= 150)
        # those whose operators leave something in force at the end of the subset: an operator opened and not cancelled
        # (303021 ends inside 204007), or bitmap / back-reference operators (322001)
        leaves = []
        for sid in seqs:
            try:
                ids = rtree.expand(rtree.parse([sid], pl.tables))
            except Exception:
                continue
            depth = {}
            lasting = False
            for d in ids:
                if d // 100000 != 2:
                    continue
                op, y = d // 1000, d % 1000
                if op in (201, 202, 204, 207, 208):
                    depth[op] = depth.get(op, 0) + (1 if y else -1)
                elif op == 203 and y not in (0, 255):
                    depth[203] = 1
                elif op == 203 and y == 0:
                    depth[203] = 0
                elif op in (222, 223, 224, 225, 232, 235, 236, 237):
                    lasting = True
            if lasting or any(v > 0 for v in depth.values()):
                leaves.append(sid)
        _OPSEQS[mv] = (seqs, leaves)
    return _OPSEQS[mv]


def gen_opseq_case(ch, opts):
    """a message whose section 3 lists no operator: one operator-bearing Table D sequence, alone, twice, or next to an element
    (what the operators inside leave behind at the end of the subset must not reach the next subset).  Raises Reject for
    sequences the reference cannot feed or that hold a specification-ambiguous construct."""
    mv = ch.choice(opts.versions or rtables.available_master_versions())
    seqs, leaves = operator_sequences(mv)
    if not seqs:
        raise Reject('no operator-bearing sequence in this version')
    sid = ch.choice(leaves) if (leaves and ch.bool(2, 3)) else ch.choice(seqs)
    pl = gpool.pool_for(mv)
    form = ch.weighted([(4, 'alone'), (1, 'twice'), (2, 'then_element'), (1, 'element_then')])
    e = ch.choice(pl.num_all)
    ids = {'alone': [sid], 'twice': [sid, sid], 'then_element': [sid, e], 'element_then': [e, sid]}[form]
    c = gen_case(ch, opts, fixed=(mv, None, ids))
    c.features.add('operators_only_inside_table_d_sequences')
    return c


def version_twin_runs(versions, per_pair=6):
    """[(tag, [case, case])]: the same small template on two master table versions that define its element differently
    (width, scale or reference value), to be handled one after the other by one coder object, in both orders --
    plain (the element twice) and under a marker operator (element, 224000 block with a one-bit bitmap, 224255)."""
    out = []
    for i, v1 in enumerate(versions):
        for v2 in versions[i + 1:]:
            lo, hi = min(v1, v2), max(v1, v2)
            for e in gpool.version_changed_elements(lo, hi)[:per_pair]:
                for order in ((v1, v2), (v2, v1)):
                    for form in ('plain', 'marker'):
                        cases = []
                        for v in order:
                            meta = frame.default_meta(4)
                            meta.update({'master_table_version': v, 'n_subsets': 1, 'is_compressed': False})
                            w = gpool.pool_for(v).tables.B[e].nbits
                            if form == 'plain':
                                cases.append(case_from_raws(meta, [e, e], subsets=[[1, (1 << w) - 2]]))
                            else:
                                cases.append(case_from_raws(meta, [e, 224000, 236000, 101001, 31031, 8023, 224255],
                                                            subsets=[[1, 0, 2, (1 << w) - 2]]))
                        out.append(('%s %06d v%d then v%d' % (form, e, order[0], order[1]), cases))
    return out


def near_twin(ch, base):
    """A message whose unexpanded list equals `base`'s except for one numeric element inside a replication body (the two
    templates agree on their top-level descriptors); same metadata, freshly drawn values.  None when `base` has no such
    element.  Raises Reject for ill-formed / ambiguous draws."""
    inner = []

    def collect(nodes, inside):
        for nd in nodes:
            if nd.t in ('R', 'D'):
                collect(nd.members, True)
            elif nd.t == 'E' and inside and nd.src is not None and nd.id // 1000 not in (31, 33) and nd.elem.kind == 'num':
                inner.append(nd)
    collect(base.tree, False)
    if not inner:
        return None
    nd = ch.choice(inner)
    local = base.meta['local_table_version']
    pl = gpool.pool_for(base.meta['master_table_version'], base.meta['originating_centre'] if local else 0,
                        base.meta['originating_subcentre'] if local else 0, local)
    ids = list(base.ids)
    ids[nd.src] = ch.choice(pl.num_all)
    if ids == base.ids:
        return None
    try:
        c = Case()
        c.meta, c.ids, c.tables = dict(base.meta), ids, base.tables
        c.tree = rtree.parse(c.ids, c.tables)
        src = source_for(ch, base.features)
        c.decoded = codec.walk_all(c.tree, c.tables, c.meta['n_subsets'], c.meta['is_compressed'], lambda k: src)
        if c.decoded.ambiguous():
            raise Reject('ambiguous')
        c.features = c.decoded.features() | {'near_twin_template'} | ({'all_bits_zero'} & set(base.features))
        c.features.add('edition%d' % c.meta['edition'])
        c.features.add('compressed' if c.meta['is_compressed'] else 'uncompressed')
        build_bytes(c)
        return c
    except (IllFormed, Unsupported) as e:
        raise Reject('illformed: %s' % e)


def wide_field_cases(tier='quick'):
    """[(name, Case)]: scale-0 elements widened by 201YYY to 53 ... 134 bits (FM-94 allows YYY up to 255, i.e. +127 bits),
    holding values that a binary64 cannot carry: 2^53 + 1, 2^60 + 1, the largest representable raw value 2^n - 2, the
    all-ones pattern (missing), and small values as a control.  Uncompressed, and compressed with small differences
    around a large minimum (difference widths stay below 63 bits).  Deterministic."""
    out = []

    def meta(**kw):
        m = dict(frame.default_meta(kw.pop('edition', 4)))
        m.update({'master_table_version': 33, 'n_subsets': 1, 'is_compressed': False})
        m.update(kw)
        return m
    B = gpool.pool_for(33).tables.B
    # 001001 (7 bits), 004001 (12 bits), 007001 (15 bits, reference -400): numeric, scale 0 (201YYY leaves code and flag tables alone)
    elems = [1001, 4001, 7001]
    targets = [53, 54, 60, 63, 64] if tier == 'quick' else [53, 54, 55, 57, 60, 62, 63, 64, 65, 72, 100, 128, 134]
    for e in elems:
        w0 = B[e].nbits
        for w in targets:
            dw = w - w0
            if not (1 <= dw <= 127):
                continue
            top = (1 << w) - 2
            vals = [v for v in ((1 << 53) + 1, (1 << 60) + 1, (1 << 63) + (1 << 9) + 5, top, top - 1, (1 << (w - 1)) + 1, 5)
                    if 0 <= v <= top]
            ids = [201000 + 128 + dw, e, 201000, e]
            for k, v in enumerate(vals):
                out.append(('wide_%06d_%dbits_u%d' % (e, w, k), case_from_raws(meta(edition=3 + k % 2), ids, subsets=[[v, 1]])))
            out.append(('wide_%06d_%dbits_missing' % (e, w), case_from_raws(meta(), ids, subsets=[[(1 << w) - 1, 1]])))
            # three subsets, uncompressed and compressed: a large minimum with small differences, one missing entry
            base = max(v for v in vals if v <= top - 9)
            col = [base, base + 9, (1 << w) - 1]
            out.append(('wide_%06d_%dbits_3subsets' % (e, w),
                        case_from_raws(meta(n_subsets=3), ids, subsets=[[c, 2] for c in col])))
            out.append(('wide_%06d_%dbits_compressed' % (e, w),
                        case_from_raws(meta(n_subsets=3, is_compressed=True), ids, columns=[col, [2, 2, 2]])))
            out.append(('wide_%06d_%dbits_compressed_equal' % (e, w),
                        case_from_raws(meta(n_subsets=2, is_compressed=True), ids, columns=[[base + 1, base + 1], [0, 1]])))
    for name, c in out:
        c.features.add('field_wider_than_53_bits')
    return out


def same_shape_other_bitmap_cases():
    """[(name, Case)]: uncompressed messages whose subsets expand to exactly the same descriptors while their bitmaps select
    different elements (the same number of zero bits at other positions) -- the structure of a subset cannot be taken from
    its neighbour.  Quality information (222000) and substituted-value markers (224000 / 224255).  Deterministic."""
    out = []

    def meta(n, edition=4):
        m = dict(frame.default_meta(edition))
        m.update({'master_table_version': 33, 'n_subsets': n, 'is_compressed': False})
        return m
    # 001001 001002 012101 | 222000 | 3 bits | factor | 033007 values
    ids = [1001, 1002, 12101, 222000, 101003, 31031, 101000, 31001, 33007]
    rows = []
    for k, bits in enumerate(([0, 1, 1], [1, 0, 1], [1, 1, 0], [0, 1, 1])):
        rows.append([10 + k, 100 + k, 27000 + k] + bits + [1, 50 + k])
    out.append(('qa_one_zero_bit_moving', case_from_raws(meta(4), ids, subsets=rows)))
    rows = []
    for k, bits in enumerate(([0, 0, 1], [1, 0, 0], [0, 1, 0])):
        rows.append([20 + k, 200 + k, 28000 + k] + bits + [2, 60 + k, 70 + k])
    out.append(('qa_two_zero_bits_moving', case_from_raws(meta(3, 3), ids, subsets=rows)))
    # 001001 001002 | 224000 236000 | 2 bits | 008023 | factor | 224255 values   then the bitmap re-used by a 223000 block
    ids = [1001, 1002, 224000, 236000, 101002, 31031, 8023, 101000, 31001, 224255, 223000, 237000, 101000, 31001, 223255]
    rows = []
    for k, bits in enumerate(([0, 1], [1, 0], [0, 1])):
        rows.append([30 + k, 300 + k] + bits + [4, 1, 40 + k, 1, 90 + k])
    out.append(('markers_one_zero_bit_moving', case_from_raws(meta(3), ids, subsets=rows)))
    # the same without any delayed replication (a template whose layout is fixed): one zero bit, one marker value; the
    # marker takes the label of the element its subset's bitmap selects
    ids = [1001, 1002, 12101, 224000, 236000, 101003, 31031, 8023, 224255, 223000, 237000, 223255]
    rows = []
    for k, bits in enumerate(([0, 1, 1], [1, 0, 1], [1, 1, 0], [1, 0, 1])):
        sel = bits.index(0)
        val = [40 + k, 400 + k, 27000 + k][sel]
        rows.append([30 + k, 300 + k, 27300 + k] + bits + [4, val, val])
    out.append(('markers_static_layout_zero_bit_moving', case_from_raws(meta(4), ids, subsets=rows)))
    for name, c in out:
        c.features.add('same_descriptors_other_bitmap')
    return out


def assoc_width_twin_runs():
    """[(tag, [case, case])]: the same element with an associated field of two different widths (204002 / 204004 ...), in
    messages to be handled one after the other by one coder object, in both orders; compressed and not; the associated
    values include the all-ones pattern of the *other* width (3 under 204004 is a value, under 204002 it is missing)."""
    out = []

    def meta(n, compressed):
        m = dict(frame.default_meta(4))
        m.update({'master_table_version': 33, 'n_subsets': n, 'is_compressed': compressed})
        return m
    for e in (12101, 20011):
        for (w1, w2) in ((2, 4), (4, 2), (1, 3), (8, 6)):
            for compressed in (False, True):
                cases = []
                for w in (w1, w2):
                    ids = [204000 + w, 31021, e, e, 204000]
                    top = (1 << w) - 1
                    other = (1 << (w2 if w == w1 else w1)) - 1
                    a = [min(other, top - 1) if top > 1 else 1, 0, 1 if top > 1 else 0]
                    rows = [[1, a[k], 5 + k, a[(k + 1) % 3], 3 + k] for k in range(3)]
                    if compressed:
                        cols = [list(c) for c in zip(*rows)]
                        cases.append(case_from_raws(meta(3, True), ids, columns=cols))
                    else:
                        cases.append(case_from_raws(meta(3, False), ids, subsets=rows))
                out.append(('%06d 204%03d then 204%03d %s' % (e, w1, w2, 'compressed' if compressed else 'uncompressed'), cases))
    return out


def unclosed_scope_cases():
    """[(name, Case)]: uncompressed messages of 2-3 subsets whose template ends inside an operator scope (201 / 202 / 207 / 208 /
    204 / 203 left open to the end of the subset) and uses the same element before the operator and under it: the next
    subset starts from the Table B definition again.  Deterministic."""
    out = []

    def meta(n, edition=4):
        m = dict(frame.default_meta(edition))
        m.update({'master_table_version': 33, 'n_subsets': n, 'is_compressed': False})
        return m
    # 012101 (16 bits, scale 2), 001015 (20 characters), 010004 (14 bits, scale -1)
    fam = [('201', [12101, 201130, 12101], [[27315, 100000], [1, 262142], [65534, 0]]),
           ('202', [12101, 202129, 12101, 10004], [[27315, 27316, 10132], [2, 3, 4], [65534, 65534, 16382]]),
           ('207', [10004, 207001, 10004, 12101], [[10132, 101320, 273150], [1, 2, 3]]),
           ('208', [1015, 208004, 1015, 12101], [[b'STATION             ', b'STAT', 27315], [b'B                   ', b'BBBB', 1]]),
           ('204', [12101, 204003, 31021, 12101], [[27315, 1, 5, 27316], [1, 2, 7, 2], [3, 3, 0, 3]]),
           ('203', [12101, 203012, 12101, 203255, 12101], [[27315, -1000, 30000], [27315, 100, 5], [1, 0, 1]]),
           ('201_after_replication', [101000, 31001, 12101, 201132, 12101], [[2, 1, 2, 1048574], [0, 77], [1, 65534, 3]])]
    for name, ids, rows in fam:
        out.append(('unclosed_' + name, case_from_raws(meta(len(rows), 3 + len(name) % 2), ids, subsets=rows)))
    for name, c in out:
        c.features.add('template_ends_inside_an_operator_scope')
    return out


def boundary_cases(tier='quick'):
    """[(name, Case)]: hand-laid-out messages at the numeric limits of the format's own fields -- replication counts of
    255 and beyond 8 / toward 16 bits, 63 replicated descriptors, bitmaps longer than 255 bits, subset counts beyond
    255, the longest character fields, long descriptor lists, a long section 2.  Deterministic (no random choices)."""
    out = []
    base = frame.default_meta(4)
    base.update({'master_table_version': 33, 'n_subsets': 1, 'is_compressed': False})

    def meta(**kw):
        m = dict(frame.default_meta(kw.get('edition', 4)))
        m.update({'master_table_version': 33, 'n_subsets': 1, 'is_compressed': False})
        m.update(kw)
        return m

    def add(name, *a, **kw):
        out.append((name, case_from_raws(*a, **kw)))
    add('fixed_replication_255', meta(), [101255, 1001], subsets=[[k % 100 for k in range(255)]])
    add('63_replicated_descriptors', meta(), [163002] + [1001, 1002] * 31 + [1001], subsets=[[k % 90 for k in range(126)]])
    for n in ([254, 256] if tier == 'quick' else [254, 255, 256, 1000, 4095]):
        fac = 31001 if n <= 254 else 31002
        add('delayed_replication_%d' % n, meta(edition=3 if n % 2 else 4), [101000, fac, 1001], subsets=[[n] + [k % 120 for k in range(n)]])
    for n in ([256] if tier == 'quick' else [255, 256, 300, 1024]):
        add('subsets_%d_uncompressed' % n, meta(n_subsets=n), [1001, 1002], subsets=[[k % 127, (k * 7) % 1000] for k in range(n)])
        add('subsets_%d_compressed' % n, meta(n_subsets=n, is_compressed=True), [1001, 1002],
            columns=[[k % 127 for k in range(n)], [(k * 7) % 1000 for k in range(n)]])
    # a bitmap of 300 bits over 300 elements, quality values for its zero bits, then substituted values re-using it
    nb = 300
    bits = [0 if k % 3 == 0 or k >= 297 else 1 for k in range(nb)]
    nz = bits.count(0)
    ids = [101255, 1001, 101045, 1002, 222000, 236000, 101000, 31002, 31031, 101000, 31002, 33007,
           223000, 237000, 101000, 31002, 223255]
    sub = [k % 100 for k in range(255)] + [k % 900 for k in range(45)] + [nb] + bits + [nz] + [k % 60 for k in range(nz)] + \
          [nz] + [(k * 5) % 900 if (3 * k >= 255) else (k * 5) % 100 for k in range(nz)]
    add('bitmap_300_bits', meta(), ids, subsets=[sub])
    add('bitmap_300_bits_compressed', meta(n_subsets=2, is_compressed=True), ids, columns=[[x, x] for x in sub])
    add('character_255_octets', meta(), [205255, 208255, 1015, 208000, 1015], subsets=[[bytes(range(32, 127)) * 2 + b'x' * 65,
                                                                                     b'BUFR' + b' ' * 251, b'station             ']])
    add('descriptor_list_of_300', meta(edition=3), [1001, 1002] * 150, subsets=[[k % 100 for k in range(300)]])
    add('section2_of_300_octets', meta(section2=bytes(range(256)) + b'BUFR7777' + b'\0' * 36), [1001], subsets=[[5]])
    for name, c in out:
        c.features.add('boundary_' + name)
    return out
