"""Template generator: well-formed unexpanded descriptor lists over the bundled tables with
sequences, nested fixed/delayed replication and the operators 201-208, 221, 222-225, 232,
235-237 -- minus the specification-ambiguous constructs of DESIGN 10-2.

gen_template(ch, pool, opts) -> (ids, hints).  hints maps the index of a descriptor in
the unexpanded list to a data hint for the value generator ('zero_bits': the bitmap bits
produced by this 031031 descriptor are all 0).
"""


class Opts(object):
    def __init__(self, **kw):
        self.max_ids = 25          # unexpanded descriptors
        self.max_depth = 3
        self.operators = True
        self.bitmaps = True
        self.sequences = True
        self.delayed = True
        self.balanced_only = False  # C08: operators opened and closed inside one replication scope
        self.allow_unclosed = True
        self.strings = True
        self.marker_under_ops = True
        self.w_bitmap = 3
        self.w_204 = 1
        self.w_rep = 2
        self.plain_bitmap_list = True   # 031031 written N times without a replication
        self.repeat_elements = True
        self.p_unclosed = (1, 8)        # probability that a top-level operator scope is left open to the end of the template
        self.bitmap_in_rep = True       # a self-contained block (elements, 22X000 + bitmap + values, 235000) as a replication body
        self.defs_in_rep = False        # 203YYY definitions inside a replication: legal, but outside the domain of template compilation
                                        # (C08) -- switched on by the checks that use interpreting coders only (C01, C02)
        self.__dict__.update(kw)


class Ctx(object):
    """What is in force while generating (so ambiguous combinations are never produced)."""

    def __init__(self):
        self.in_numop = False    # inside 201/202/207
        self.neg_dw = 0          # most negative 201 width change in force
        self.in_204 = 0
        self.in_208 = False
        self.in_rep = 0
        self.min_plain = 0       # lower bound on the number of back-referencable fields so far
        self.stored_bitmap = False   # a 236000 bitmap is defined and is the most recent one
        self.epoch_len = None    # bitmap length of the current back-reference epoch
        self.budget = 0
        self.features = set()

    def child(self):
        c = Ctx()
        c.__dict__.update(self.__dict__)
        c.features = self.features
        return c


def _pick_num(ch, pool, ctx, min_bits=1):
    buckets = [b for b in sorted(pool.num) if any(pool.tables.B[i].nbits >= min_bits for i in pool.num[b])]
    b = ch.choice(buckets)
    cands = [i for i in pool.num[b] if pool.tables.B[i].nbits >= min_bits]
    return ch.choice(cands)


def _pick_code(ch, pool):
    if not pool.code:
        return None
    b = ch.choice(sorted(pool.code))
    return ch.choice(pool.code[b])


def _pick_element(ch, pool, ctx, opts):
    """one element id honouring the context"""
    min_bits = 1 - ctx.neg_dw if ctx.neg_dw < 0 else 1
    kinds = [(5, 'num'), (2, 'code')]
    if opts.strings:
        kinds.append((2, 'str'))
    if pool.num_neg_ref:
        kinds.append((1, 'negref'))
    if pool.num_neg_scale:
        kinds.append((1, 'negscale'))
    k = ch.weighted(kinds)
    if k == 'code':
        c = _pick_code(ch, pool)
        if c is not None:
            return c
        k = 'num'
    if k == 'str' and pool.strs:
        return ch.choice(pool.strs)
    if k == 'negref':
        c = [i for i in pool.num_neg_ref if pool.tables.B[i].nbits >= min_bits]
        if c:
            return ch.choice(c)
    if k == 'negscale':
        c = [i for i in pool.num_neg_scale if pool.tables.B[i].nbits >= min_bits]
        if c:
            return ch.choice(c)
    return _pick_num(ch, pool, ctx, min_bits)


def _seq_ok(info, ctx, opts):
    if ctx.in_numop and (info.has_class31 or info.has_amb_code):
        return False
    if ctx.neg_dw < 0 and info.min_num_bits + ctx.neg_dw < 1:
        return False
    if not opts.delayed and info.has_delayed:
        return False
    if ctx.in_204 and info.has_class31:
        # 031021 inside the scope would redefine the meaning; keep it simple
        return False
    return True


def gen_items(ch, pool, ctx, opts, depth, n_items):
    """n_items 'items' (an item may be several descriptors).  Returns list of ids; hints are
    collected by absolute position afterwards via the markers in ctx.hint_marks."""
    out = []
    for _ in range(n_items):
        if ctx.budget <= 0:
            break
        out.extend(gen_item(ch, pool, ctx, opts, depth, len(out)))
    return out


def _reserve(ctx, n):
    ctx.budget -= n


def gen_item(ch, pool, ctx, opts, depth, pos):
    choices = [(8, 'elem')]
    if opts.sequences and pool.seqs:
        choices.append((2, 'seq'))
    if depth < opts.max_depth and ctx.budget >= 3:
        choices.append((opts.w_rep, 'fixed'))
        if opts.delayed and not ctx.in_numop:
            choices.append((opts.w_rep, 'delayed'))
    if opts.operators and depth < opts.max_depth and ctx.budget >= 4:
        if not ctx.in_numop and not ctx.in_204:
            choices += [(1, '201'), (1, '202'), (1, '207')]
            choices += [(1, '203')]
        if not ctx.in_208 and opts.strings and pool.strs:
            choices.append((1, '208'))
        if ctx.in_204 < 2 and not ctx.in_numop:
            choices.append((opts.w_204, '204'))
        if not ctx.in_204:
            choices += [(1, '205'), (1, '206')]
        if not ctx.in_204 and not ctx.in_numop and pool.class1to9 and pool.non1to9:
            choices.append((1, '221'))
    if (opts.bitmaps and opts.operators and not ctx.in_204 and not ctx.in_numop and not ctx.in_rep
            and ctx.min_plain >= 1 and ctx.budget >= 6 and not ctx.in_208):
        choices.append((opts.w_bitmap, 'bitmap'))
        if opts.marker_under_ops and depth == 0:
            choices.append((max(1, opts.w_bitmap // 2), 'static_markers'))
        if opts.w_204:
            choices.append((1, 'qa_in_204'))
    if (opts.bitmaps and opts.operators and opts.bitmap_in_rep and depth == 0 and not ctx.in_rep and not ctx.in_204
            and not ctx.in_numop and not ctx.in_208 and ctx.epoch_len is None and not ctx.stored_bitmap
            and ctx.budget >= 10 and pool.class33):
        choices.append((max(1, opts.w_bitmap // 2), 'rep_bitmap'))
    k = ch.weighted(choices)
    return _GEN[k](ch, pool, ctx, opts, depth)


def g_elem(ch, pool, ctx, opts, depth):
    e = _pick_element(ch, pool, ctx, opts)
    k = 1
    if opts.repeat_elements and ctx.budget >= 3 and ch.bool(1, 7):
        k = ch.int(2, 3)            # the same element two or three times in a row (same-ID siblings)
        ctx.features.add('same_id_siblings')
    _reserve(ctx, k)
    ctx.min_plain += 0 if ctx.in_rep else k
    return [e] * k


def g_seq(ch, pool, ctx, opts, depth):
    for _ in range(4):
        sid = ch.choice(pool.seqs)
        info = pool.seqinfo[sid]
        if _seq_ok(info, ctx, opts):
            _reserve(ctx, 1 + info.n_expanded // 8)
            if not ctx.in_rep:
                ctx.min_plain += info.n_fields_min
            ctx.features.add('sequence')
            return [sid]
    return g_elem(ch, pool, ctx, opts, depth)


def _body(ch, pool, ctx, opts, depth, max_items):
    c = ctx.child()
    c.in_rep = ctx.in_rep + 1
    n = ch.int(1, max_items)
    body = gen_items(ch, pool, c, opts, depth + 1, n)
    ctx.budget = c.budget
    if not body:
        body = g_elem(ch, pool, c, opts, depth)
        ctx.budget = c.budget
    return body[:63], c


def g_fixed(ch, pool, ctx, opts, depth):
    _reserve(ctx, 1)
    body, c = _body(ch, pool, ctx, opts, depth, 3)
    count = ch.int(1, 3)
    return [100000 + len(body) * 1000 + count] + body


def g_delayed(ch, pool, ctx, opts, depth):
    _reserve(ctx, 2)
    body, c = _body(ch, pool, ctx, opts, depth, 3)
    factor = ch.weighted([(4, 31001), (2, 31000), (1, 31002)])
    if not ctx.in_rep:
        ctx.min_plain += 1
    return [100000 + len(body) * 1000, factor] + body


def _scoped(ch, pool, ctx, opts, depth, open_id, close_id, mutate, max_items=3, must=None):
    """open ... items ... close; at top level the close may be omitted (unclosed variant)"""
    _reserve(ctx, 2)
    c = ctx.child()
    mutate(c)
    n = ch.int(1, max_items)
    inner = []
    if must is not None:
        inner.extend(must(c))
    inner.extend(gen_items(ch, pool, c, opts, depth + 1, n))
    ctx.budget = c.budget
    ctx.min_plain = c.min_plain
    out = [open_id] + inner
    unclosed = (opts.allow_unclosed and not opts.balanced_only and depth == 0 and not ctx.in_rep
                and ch.bool(*opts.p_unclosed))
    if unclosed:
        ctx.features.add('unclosed')
        # everything generated after this point stays inside the scope
        ctx.__dict__.update({k: v for k, v in c.__dict__.items() if k not in ('budget', 'min_plain')})
    else:
        out.append(close_id)
    return out


def g_201(ch, pool, ctx, opts, depth):
    dw = ch.weighted([(3, 1), (2, 2), (2, 8), (1, 4), (1, -1), (1, -2), (1, 6)])

    def mut(c):
        c.in_numop = True
        c.neg_dw = min(c.neg_dw, dw)

    def must(c):
        _reserve(c, 1)
        c.min_plain += 0 if c.in_rep else 1
        return [_pick_num(ch, pool, c, 1 - min(dw, 0))]
    return _scoped(ch, pool, ctx, opts, depth, 201000 + 128 + dw, 201000, mut, must=must)


def g_202(ch, pool, ctx, opts, depth):
    ds = ch.weighted([(3, 1), (2, 2), (2, -1), (1, 3), (1, -2)])

    def mut(c):
        c.in_numop = True

    def must(c):
        _reserve(c, 1)
        c.min_plain += 0 if c.in_rep else 1
        return [_pick_num(ch, pool, c, 1 - min(c.neg_dw, 0))]
    return _scoped(ch, pool, ctx, opts, depth, 202000 + 128 + ds, 202000, mut, must=must)


def g_207(ch, pool, ctx, opts, depth):
    y = ch.weighted([(3, 1), (2, 2), (1, 3)])

    def mut(c):
        c.in_numop = True

    def must(c):
        _reserve(c, 1)
        c.min_plain += 0 if c.in_rep else 1
        return [_pick_num(ch, pool, c, 1 - min(c.neg_dw, 0))]
    return _scoped(ch, pool, ctx, opts, depth, 207000 + y, 207000, mut, must=must)


def g_208(ch, pool, ctx, opts, depth):
    y = ch.int(1, 12)

    def mut(c):
        c.in_208 = True

    def must(c):
        _reserve(c, 1)
        c.min_plain += 0 if c.in_rep else 1
        return [ch.choice(pool.strs)]
    return _scoped(ch, pool, ctx, opts, depth, 208000 + y, 208000, mut, must=must)


def g_204(ch, pool, ctx, opts, depth):
    y = ch.int(1, 16)

    def mut(c):
        c.in_204 = ctx.in_204 + 1

    def must(c):
        _reserve(c, 2)
        c.min_plain += 0 if c.in_rep else 2
        return [31021, _pick_element(ch, pool, c, opts)]
    return _scoped(ch, pool, ctx, opts, depth, 204000 + y, 204000, mut, must=must)


def g_205(ch, pool, ctx, opts, depth):
    _reserve(ctx, 1)
    return [205000 + ch.int(1, 8)]


def g_206(ch, pool, ctx, opts, depth):
    _reserve(ctx, 2)
    w = ch.weighted([(3, ch.int(2, 16)), (1, 1), (1, 32), (1, ch.int(17, 31))])
    cands = list(pool.local_undefined)
    if not cands or ch.bool(1, 3):
        # a *defined* element after 206 is still only skipped
        return [206000 + w, _pick_num(ch, pool, ctx)]
    return [206000 + w, ch.choice(cands)]


def g_203(ch, pool, ctx, opts, depth):
    """203YYY <defining elements> 203255 <items that use them> 203000"""
    _reserve(ctx, 4)
    y = ch.weighted([(3, ch.int(4, 16)), (1, 2), (1, 24), (1, 3)])
    n_def = ch.int(1, 2)
    defs = []
    for _ in range(n_def):
        defs.append(_pick_num(ch, pool, ctx, 1))
    if not ctx.in_rep:
        ctx.min_plain += n_def
    use = list(defs)
    if ch.bool():
        use.append(_pick_element(ch, pool, ctx, opts))
    lead = []
    cands = [sid for sid in sorted(pool.small_seq_numeric) if _seq_ok(pool.seqinfo[sid], ctx, opts)] if opts.sequences else []
    if cands and not ctx.in_numop and not ctx.in_204 and ch.bool(1, 3):
        # the new reference value is for an element that a Table D sequence reaches; the sequence is used inside the
        # scope and, often, once more outside it (the same sequence with and without the new reference value)
        sid = ch.choice(cands)
        defs = [ch.choice(pool.small_seq_numeric[sid])]
        use = [sid] + ([defs[0]] if ch.bool(1, 3) else [])
        if ch.bool(2, 3):
            lead = [sid]
        ctx.features.update(['sequence', '203_over_sequence_member'])
        _reserve(ctx, 2 + pool.seqinfo[sid].n_expanded // 4)
        if not ctx.in_rep:
            ctx.min_plain += pool.seqinfo[sid].n_fields_min * (2 if lead else 1)
    if not ctx.in_rep:
        ctx.min_plain += len(use)
    _reserve(ctx, len(use) + n_def)
    ctx.features.add('203')
    # a 201 / 202 / 207 scope that covers only the use, or only the definition, of the new reference values
    # (the scopes of different operators need not be nested)
    form = 'plain' if ctx.in_numop else ch.weighted([(4, 'plain'), (2, 'use_under_op'), (2, 'def_under_op')])
    if form != 'plain':
        _reserve(ctx, 2)
        op, cancel = ch.choice([(201000 + 128 + ch.int(1, 8), 201000), (202000 + 128 + ch.choice([-2, -1, 1, 2]), 202000),
                                (207000 + ch.int(1, 3), 207000)])
        ctx.features.add('203_and_%d_not_nested' % (op // 1000))
    if form == 'use_under_op':
        k = ch.int(1, len(use))
        out = [203000 + y] + defs + [203255] + [op] + use[:k] + [cancel] + use[k:]
    elif form == 'def_under_op':
        out = [op, 203000 + y] + defs + [203255, cancel] + use
    elif not lead and opts.delayed and opts.defs_in_rep and ch.bool(1, 4):
        # the definitions stand inside a replication: its class 31 factor is a count as always, the element(s) are defined
        # once per repetition (the last one stays), not at all when it runs zero times
        _reserve(ctx, 2)
        rep = [100000 + len(defs) * 1000, ch.choice([31001, 31000, 31002])] if ch.bool(2, 3) else [100000 + len(defs) * 1000 + ch.int(1, 2)]
        out = [203000 + y] + rep + defs + [203255] + use
        ctx.features.add('203_definitions_inside_a_replication')
    elif not lead and ch.bool(1, 3):
        # two definition lists with no cancellation between them: the values of the first stay in force
        d2 = _pick_num(ch, pool, ctx, 1)
        y2 = ch.weighted([(3, ch.int(4, 16)), (1, 2), (1, 24)])
        _reserve(ctx, 4)
        if not ctx.in_rep:
            ctx.min_plain += 2
        between = [ch.choice(defs)] if ch.bool() else []
        if between and not ctx.in_rep:
            ctx.min_plain += 1
        out = [203000 + y] + defs + [203255] + between + [203000 + y2, d2, 203255] + use + [d2]
        ctx.features.add('203_two_definition_lists')
    else:
        out = [203000 + y] + defs + [203255] + use
    out = lead + out
    unclosed = (opts.allow_unclosed and not opts.balanced_only and depth == 0 and not ctx.in_rep
                and ch.bool(1, 8))
    if not unclosed:
        out.append(203000)
        if lead and ch.bool():
            out.append(lead[0])      # and once more after the cancellation
    else:
        ctx.features.add('unclosed')
    return out


def g_221(ch, pool, ctx, opts, depth):
    k = ch.int(2, 4)
    ids = []
    have_kept = have_dropped = False
    for j in range(k):
        if (j == k - 2 and not have_kept) or (not (j == k - 1 and not have_dropped) and ch.bool()):
            ids.append(ch.choice(pool.class1to9))
            have_kept = True
        else:
            ids.append(ch.choice(pool.non1to9))
            have_dropped = True
    if not ctx.in_rep:
        ctx.min_plain += 1
    if not ctx.in_numop and not ctx.in_208 and ch.bool(1, 3):
        # an operator pair among the YYY descriptors (they count, and take effect, like anywhere else)
        j = ch.int(0, k - 1)
        op, cancel = ch.choice([(201129, 201000), (202129, 202000), (207001, 207000), (208003, 208000)])
        ids = ids[:j] + [op, ids[j], cancel] + ids[j + 1:]
        k += 2
    _reserve(ctx, k + 1)
    ctx.features.add('221')
    return [221000 + k] + ids


def _bitmap_def(ch, ctx, n, out_hints, base_len, style=None):
    """descriptors defining an n-bit bitmap; returns (ids, all_zero)"""
    styles = [(3, 'fixed'), (3, 'delayed')]
    if n <= 4:
        styles.append((2, 'list'))
    if style is None:
        style = ch.weighted(styles)
    if style == 'fixed':
        return [101000 + n, 31031]
    if style == 'delayed':
        f = 31001 if n < 255 else 31002
        return [101000, f, 31031]
    return [31031] * n


def g_bitmap(ch, pool, ctx, opts, depth):
    """One or more operator blocks sharing a back-reference epoch."""
    out = []
    n_blocks = ch.weighted([(3, 1), (4, 2), (1, 3)])
    prev_wrapped = None
    mixed = ch.int(0, 1) if (n_blocks >= 2 and opts.marker_under_ops and ch.bool(1, 3)) else None
    for b in range(n_blocks):
        if ctx.budget < (5 if b == 0 else 3):
            break
        if ctx.epoch_len is None:
            n = ch.int(1, min(ctx.min_plain, 12))
        else:
            n = ctx.epoch_len
        ops = [(3, 222), (2, 224), (2, 223), (1, 232)]
        if ctx.epoch_len is None:
            ops.append((1, 225))
        if mixed is not None and b < 2:
            # two marker blocks in a row, the markers of exactly one of them under 201/202/207/208: the operator
            # state a marker sees must be the one in force at that marker
            ops = [(2, 224), (2, 223), (1, 232)]
        op = ch.weighted(ops)
        blk = []
        if op == 225:
            # difference statistics only make sense for numeric elements: the block refers
            # to n numeric elements placed right in front of it
            n = ch.int(1, 3)
            blk = [_pick_num(ch, pool, ctx, 1) for _ in range(n)]
            ctx.min_plain += n
        blk.append(op * 1000)
        recall = ctx.stored_bitmap and ch.bool(2, 3)
        if recall:
            blk.append(237000)
        else:
            reuse = ch.bool(1, 2)
            if reuse:
                blk.append(236000)
            style = None
            if getattr(ctx, 'epoch_delayed', False):
                style = 'delayed'      # the epoch's length is data: later bitmaps must follow it
            elif op == 225 or ctx.epoch_len is not None:
                style = ch.weighted([(1, 'fixed'), (1, 'list' if n <= 4 and opts.plain_bitmap_list else 'fixed')])
            elif not opts.plain_bitmap_list:
                style = ch.weighted([(1, 'fixed'), (1, 'delayed')])
            d = _bitmap_def(ch, ctx, n, None, 0, style)
            if ctx.epoch_len is None:
                ctx.epoch_delayed = (d[0] == 101000)
            ctx.hint_marks.append(('bitmap_n', n))
            blk.extend(d)
            # bits are data: the value generator draws them; a 'list'/'fixed' bitmap keeps N
            ctx.epoch_len = n
            # a non-reuse definition after a stored one makes 237000 ambiguous: the
            # stored bitmap is considered gone for generation purposes
            ctx.stored_bitmap = reuse
        # attribute values: their number is data dependent (zero bits) -> delayed replication
        if op == 222:
            attr = ch.choice(pool.class33) if pool.class33 else None
            if attr is None:
                return out
            blk += [101000, 31001, attr]
            if ch.bool(1, 5):
                # an ordinary class 33 element later on is plain data, not quality information
                blk += [_pick_num(ch, pool, ctx, 1), ch.choice(pool.class33)]
                ctx.min_plain += 2
                ctx.features.add('class33_as_data_after_qa')
        else:
            if op == 224:
                blk.append(8023)
            elif op == 225:
                blk.append(8024)
            marker = op * 1000 + 255
            wrap = None
            want_wrap = ch.bool(1, 4) if (mixed is None or b >= 2) else (b == mixed)
            if opts.marker_under_ops and op != 225 and want_wrap:
                wrap = ch.weighted([(2, (201129, 201000)), (1, (202129, 202000)), (1, (207001, 207000)),
                                    (1, (208002, 208000))])
            elif opts.marker_under_ops and op == 225 and want_wrap:
                # difference statistics while a width / scale change is in force: one bit more than the changed width, the
                # reference value still minus two to the Table B width
                wrap = ch.weighted([(2, (201000 + 128 + ch.int(1, 3), 201000)), (1, (202129, 202000))])
                ctx.features.add('225255_under_201_or_202')
            if wrap:
                # the operator pair sits inside the replication so the class-31 factor stays outside it
                blk += [103000, 31001, wrap[0], marker, wrap[1]]
            else:
                blk += [101000, 31001, marker]
            if opts.marker_under_ops and op != 225:
                if prev_wrapped is not None and prev_wrapped != bool(wrap):
                    ctx.features.add('marker_blocks_with_and_without_operator')
                prev_wrapped = bool(wrap)
        _reserve(ctx, len(blk))
        # fields added: operator constant entries are not plain; bits, factors, values are
        ctx.min_plain += 1
        out.extend(blk)
        ctx.features.add('bitmap')
        # cancellations
        z = ch.weighted([(6, None), (1, 235000), (1, 237255)])
        if z == 235000:
            out.append(235000)
            ctx.epoch_len = None
            ctx.epoch_delayed = False
            ctx.stored_bitmap = False
            _reserve(ctx, 1)
        elif z == 237255 and ctx.stored_bitmap:
            out.append(237255)
            ctx.stored_bitmap = False
            _reserve(ctx, 1)
    return out


def g_qa_in_204(ch, pool, ctx, opts, depth):
    """A whole quality-information block inside an open 204YYY scope: the class 31 descriptors of the bitmap
    definition carry no associated field, the class 33 values do.  Only as the first block of an epoch, and only
    222000 (a marker operator under 204 is the recorded finding K1)."""
    if ctx.epoch_len is not None or ctx.stored_bitmap or not pool.class33:
        return g_elem(ch, pool, ctx, opts, depth)
    y = ch.int(1, 8)
    k = ch.int(1, 2)
    c = ctx.child()
    c.in_204 = 1
    elems = [_pick_element(ch, pool, c, opts) for _ in range(k)]
    ctx.min_plain += 1 + k
    # the bitmap reaches back over the elements of the scope only: quality information about the scope's own
    # 031021 would make that significance an attribute of its own attribute's associated field (a cycle in any
    # hierarchical view)
    n = ch.int(1, k)
    # (a bitmap whose length is data would be drawn over everything in front of it: fixed length here)
    d = _bitmap_def(ch, ctx, n, None, 0, ch.weighted([(2, 'fixed'), (1, 'list' if opts.plain_bitmap_list else 'fixed')]))
    blk = [204000 + y, 31021] + elems + [222000] + d + [101000, 31001, ch.choice(pool.class33), 204000]
    ctx.epoch_len = n
    ctx.epoch_delayed = (d[0] == 101000)
    ctx.stored_bitmap = False
    ctx.hint_marks.append(('bitmap_n', n))
    ctx.min_plain += 1
    _reserve(ctx, len(blk))
    ctx.features.update(['bitmap', '204', 'bitmap_inside_204'])
    if ch.bool(1, 3):
        blk.append(235000)
        ctx.epoch_len = None
        ctx.epoch_delayed = False
    return blk


def g_static_markers(ch, pool, ctx, opts, depth):
    """A marker block whose values are laid out statically: an n-bit bitmap that is all zeros (the value source is
    told so through the 'all_bits_zero' feature), one marker outside any replication, a fixed replication of
    n - 2 markers -- under a 201/202/207/208 pair opened and closed inside the body, or plain -- and a last marker
    outside again.  The only construct with marker operators that are not inside a replication."""
    if ctx.epoch_len is not None or ctx.stored_bitmap:
        return g_elem(ch, pool, ctx, opts, depth)
    n = ch.int(3, 5)
    op = ch.weighted([(2, 224), (2, 223), (1, 232)])
    wrap = ch.weighted([(3, (201129, 201000)), (2, (202129, 202000)), (2, (207001, 207000)), (2, (208002, 208000)), (2, None)])
    # the n elements the bitmap refers to come with the block; with a 208 pair one of them is a character element
    own = [_pick_element(ch, pool, ctx, opts) for _ in range(n)]
    if wrap and wrap[0] // 1000 == 208 and pool.strs:
        own[ch.int(0, n - 1)] = ch.choice(pool.strs)
    ctx.min_plain += n
    blk = own + [op * 1000]
    reuse = ch.bool(1, 3)
    if reuse:
        blk.append(236000)
    blk += [101000 + n, 31031]
    if op == 224:
        blk.append(8023)
    marker = op * 1000 + 255
    body = [wrap[0], marker, wrap[1]] if wrap else [marker]
    first_wrapped = wrap is not None and ch.bool(1, 4)
    blk += ([wrap[0], marker, wrap[1]] if first_wrapped else [marker])
    blk += [100000 + 1000 * len(body) + (n - 2)] + body
    blk += [marker]
    ctx.epoch_len = n
    ctx.epoch_delayed = False
    ctx.stored_bitmap = reuse
    ctx.min_plain += 1
    _reserve(ctx, len(blk))
    ctx.features.update(['bitmap', 'all_bits_zero', 'markers_outside_replication'])
    if ch.bool(1, 3):
        blk.append(235000)
        ctx.epoch_len = None
        ctx.stored_bitmap = False
    return blk


def g_rep_bitmap(ch, pool, ctx, opts, depth):
    """A replication whose body opens and closes a whole back-reference epoch: k elements, an
    operator block over n <= k of them, 235000."""
    k = ch.int(1, 3)
    body = [_pick_num(ch, pool, ctx, 1) for _ in range(k)]
    n = ch.int(1, k)
    op = ch.weighted([(3, 222), (2, 224), (2, 223), (1, 232)])
    body.append(op * 1000)
    if ch.bool(1, 4):
        body.append(236000)
    body.extend(_bitmap_def(ch, ctx, n, None, 0, ch.weighted([(2, 'fixed'), (1, 'delayed'), (1, 'list')])))
    if op == 222:
        body += [101000, 31001, ch.choice(pool.class33)]
    else:
        if op == 224:
            body.append(8023)
        body += [101000, 31001, op * 1000 + 255]
    body.append(235000)
    _reserve(ctx, len(body) + 2)
    ctx.features.add('bitmap')
    ctx.features.add('bitmap_in_rep')
    if ch.bool():
        head = [100000 + len(body) * 1000 + ch.int(1, 3)]
    else:
        head = [100000 + len(body) * 1000, ch.weighted([(3, 31001), (1, 31000)])]
        ctx.min_plain += 1
    return head + body


_GEN = {'rep_bitmap': g_rep_bitmap, 'elem': g_elem, 'seq': g_seq, 'fixed': g_fixed, 'delayed': g_delayed, '201': g_201, '202': g_202,
        '207': g_207, '208': g_208, '204': g_204, '205': g_205, '206': g_206, '203': g_203, '221': g_221, 'qa_in_204': g_qa_in_204, 'static_markers': g_static_markers,
        'bitmap': g_bitmap}


def gen_template(ch, pool, opts=None):
    opts = opts or Opts()
    ctx = Ctx()
    ctx.budget = opts.max_ids
    ctx.hint_marks = []
    n = ch.int(1, 6)
    ids = gen_items(ch, pool, ctx, opts, 0, n)
    if not ids:
        ids = g_elem(ch, pool, ctx, opts, 0)
    return ids, ctx.features
