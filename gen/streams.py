"""Byte streams of reference-built messages with separators that never hold the start
signature, payloads that do, and a small filter-expression grammar over metadata with a
reference evaluation on the generator's own metadata."""
import hashlib

from vlib.runner import Reject
from refbufr import codec, frame, tree as rtree, IllFormed, Unsupported
from . import messages as gmsg, templates as gtemplates, pool as gpool
from .values import GenSource

SEPARATORS = [b'', b'\r\r\n', b'\x01\r\r\n123\r\r\nIUSK73 AMMC 182300\r\r\n', b'\r\r\n\x03', b'BUF', b'BU', b'B', b'7777',
              b'\x00\xff\x00', b'BU FR', b'RFUB', b'bufr', b'7777BUF', b'\n']


class BufrInBody(GenSource):
    """value source whose first character field holds the start signature (byte aligned when
    that field is the first of an uncompressed data section)"""

    def __init__(self, ch):
        GenSource.__init__(self, ch)
        self.done = False

    def str_raw(self, nbytes, allow_missing=True):
        if not self.done and nbytes >= 4:
            self.done = True
            s = self.ch.choice([b'BUFR', b'BUFR7777', b'7777BUFR', b'xBUFR\x00\x00\x01'])
            return (s + b' ' * nbytes)[:nbytes]
        return GenSource.str_raw(self, nbytes, allow_missing)


def small_opts(tier='quick', max_ids=6):
    opts = gmsg.GenOpts(tier)
    opts.template = gtemplates.Opts(max_ids=max_ids)
    opts.max_subsets = 3
    opts.extra_widths = False
    return opts


def gen_message(ch, opts, bufr_in_body=None):
    """a message case; with bufr_in_body the data section starts with a character field holding 'BUFR'"""
    if bufr_in_body is None:
        bufr_in_body = ch.bool(1, 3)
    if not bufr_in_body:
        return gmsg.gen_case(ch, opts)
    mv = ch.choice(opts.versions or [33])
    edition = ch.choice(opts.editions)
    meta = gmsg.gen_meta(ch, edition, mv, None)
    pl = gpool.pool_for(mv)
    tail, _ = gtemplates.gen_template(ch, pl, gtemplates.Opts(max_ids=4, bitmaps=False))
    ids = [205000 + ch.choice([4, 8, 9])] + tail
    meta['n_subsets'] = ch.int(1, 2)
    meta['is_compressed'] = False
    c = gmsg.Case()
    c.meta, c.ids, c.tables = meta, ids, pl.tables
    try:
        c.tree = rtree.parse(ids, c.tables)
        src = BufrInBody(ch)
        c.decoded = codec.walk_all(c.tree, c.tables, meta['n_subsets'], False, lambda i: src)
    except (IllFormed, Unsupported) as e:
        raise Reject('illformed: %s' % e)
    if c.decoded.ambiguous():
        raise Reject('ambiguous')
    c.features = c.decoded.features() | {'edition%d' % edition, 'uncompressed', 'bufr_in_body'}
    gmsg.build_bytes(c)
    if b'BUFR' not in c.bytes[4:]:
        raise Reject('no signature in the body')
    return c


def assemble(messages, seps):
    """stream, [(start, end)] of the messages; Reject when a start signature occurs outside
    a message or across a seam (the property's precondition on separators)"""
    parts = [seps[0]]
    spans = []
    pos = len(seps[0])
    for i, m in enumerate(messages):
        spans.append((pos, pos + len(m)))
        parts.append(m)
        parts.append(seps[i + 1])
        pos += len(m) + len(seps[i + 1])
    stream = b''.join(parts)
    i = stream.find(b'BUFR')
    while i >= 0:
        if not any(a <= i and i + 4 <= b for a, b in spans):
            raise Reject('start signature outside a message')
        i = stream.find(b'BUFR', i + 1)
    return stream, spans


# ---- filter expressions -------------------------------------------------------------------------
def md_value(case, name, index=None):
    """reference value of '%name' / '%index.name' for a generated message"""
    meta = case.meta
    ed = meta['edition']
    for k in range(0, 4):
        if index is not None and k != index:
            continue
        if k == 2 and meta.get('section2') is None:
            continue
        for n, nbits, typ in frame.layout(ed, k):
            if n != name:
                continue
            if k == 0:
                return {'length': len(case.bytes), 'edition': ed}.get(name)
            if name == 'section_length':
                return case.info['lengths'][k]
            if name == 'is_section2_presents':
                return meta.get('section2') is not None
            if name == 'unexpanded_descriptors':
                return list(case.ids)
            if name in ('is_observation', 'is_compressed'):
                return bool(meta[name])
            if name in meta:
                return meta[name]
            return None
    return None


ATOMS = [
    ('edition', None, '==', [2, 3, 4]),
    ('edition', 0, '!=', [3, 4]),
    ('n_subsets', None, '>', [1, 2]),
    ('n_subsets', 3, '==', [1, 2, 3]),
    ('is_compressed', None, 'bool', [None]),
    ('is_observation', None, 'bool', [None]),
    ('is_section2_presents', None, 'bool', [None]),
    ('data_category', None, '==', [0, 1, 2, 12]),
    ('data_local_subcategory', None, '==', [0, 7]),
    ('month', 1, '==', [1, 5, 12]),
    ('month', None, '<=', [6]),
    ('year', None, '>=', [50, 2000]),
    ('day', None, '==', [1, 15]),
    ('hour', None, '<', [12]),
    ('originating_centre', None, '==', [0, 98, 7, 254]),
    ('originating_subcentre', None, '==', [0, 1, 255]),
    ('master_table_version', None, '==', [13, 19, 25, 33, 40]),
    ('master_table_version', 1, '>=', [25]),
    ('local_table_version', None, '==', [0, 1]),
    ('update_sequence_number', None, '==', [0]),
    ('length', None, '>', [60, 100]),
    ('section_length', None, '>=', [18, 22]),
    ('section_length', 3, '>', [10]),
    ('unexpanded_descriptors', None, 'contains', [None]),
    ('no_such_parameter', None, 'is None', [None]),
    ('originating_subcentre', None, 'is None', [None]),
]


def gen_filter(ch, cases, depth=0):
    """(expression text, function case -> bool)"""
    k = ch.weighted([(6, 'atom'), (2, 'and'), (2, 'or'), (1, 'not'), (2, 'scoped')]) if depth < 2 else 'atom'
    if k == 'scoped':
        # the embedded query stands inside the body of a generator expression or a lambda (a nested scope of the expression)
        some = sorted(set(i for cs in cases for i in cs.ids)) or [1001]
        ds = tuple(ch.choice(some) for _ in range(ch.int(1, 2))) + ((1001,) if ch.bool(1, 3) else ())
        form = ch.int(0, 3)
        if form == 0:
            return ('all(d in ${%%unexpanded_descriptors} for d in %r)' % (ds,),
                    lambda case: all(d in md_value(case, 'unexpanded_descriptors', None) for d in ds))
        if form == 1:
            eds = tuple(sorted(set(ch.choice([2, 3, 4]) for _ in range(2))))
            return ('any(e == ${ %%edition } for e in %r)' % (eds,), lambda case: any(e == md_value(case, 'edition', None) for e in eds))
        if form == 2:
            return ('bool(list(filter(lambda d: d in ${%%3.unexpanded_descriptors}, %r)))' % (ds,),
                    lambda case: any(d in md_value(case, 'unexpanded_descriptors', 3) for d in ds))
        n = ch.int(1, 3)
        return ('(lambda k: ${%%n_subsets} >= k)(%d)' % n, lambda case: md_value(case, 'n_subsets', None) >= n)
    if k == 'atom':
        name, index, op, consts = ch.choice(ATOMS)
        c = ch.choice(consts)
        blank = ch.choice(['', ' '])
        ref = '${%s%%%s%s%s}' % (blank, '' if index is None else '%d.' % index, name, blank)
        if op == 'bool':
            return ref, lambda case: bool(md_value(case, name, index))
        if op == 'is None':
            return '(%s is None)' % ref, lambda case: md_value(case, name, index) is None
        if op == 'contains':
            some = [i for cs in cases for i in cs.ids]
            d = ch.choice(some) if some else 1001
            return '(%d in %s)' % (d, ref), lambda case: d in md_value(case, name, index)
        if op in ('>', '<', '>=', '<='):
            # ordering against None raises in Python 3: only for parameters every layout has
            fn = {'>': lambda a, b: a > b, '<': lambda a, b: a < b, '>=': lambda a, b: a >= b, '<=': lambda a, b: a <= b}[op]
            return '(%s %s %d)' % (ref, op, c), lambda case: fn(md_value(case, name, index), c)
        if op == '==':
            return '(%s == %d)' % (ref, c), lambda case: md_value(case, name, index) == c
        return '(%s != %d)' % (ref, c), lambda case: md_value(case, name, index) != c
    if k == 'not':
        t, f = gen_filter(ch, cases, depth + 1)
        return '(not %s)' % t, lambda case: not f(case)
    t1, f1 = gen_filter(ch, cases, depth + 1)
    t2, f2 = gen_filter(ch, cases, depth + 1)
    if k == 'and':
        return '(%s and %s)' % (t1, t2), lambda case: bool(f1(case) and f2(case))
    return '(%s or %s)' % (t1, t2), lambda case: bool(f1(case) or f2(case))
