"""Value generator: the *generate* field source of the reference walker.  Every leaf asks
the Chooser for a raw value, so a whole message is a function of the choice sequence."""
from refbufr.walker import all_ones

SPECIAL_STRINGS = [b'BUFR', b'7777', b" b'", b'"', b"'", b'\\', b'  x', b'x  ', b"b'x'", b'-> A', b'#',
                   b'3', b'\xe9t\xe9', b'a"b', b"a'b",
                   # octets that are valid multi-byte UTF-8 (the field is latin-1 all the same), trailing and interior NULs
                   b'Z\xc3\xbcrich', b'\xc3\xa9t\xc3\xa9', b'EUM\x00\x00', b'A\x00B\x00', b'\xc2\xb0C']
ASCII = bytes(range(0x20, 0x7f))
LATIN = bytes(range(0x20, 0x7f)) + bytes(range(0xa0, 0xff))


def consumes_attributes(nd):
    """Does this replication body hold the values that belong to a bitmap's zero bits?"""
    for m in nd.members:
        if m.t == 'O' and m.id % 1000 == 255 and m.id // 1000 in (223, 224, 225, 232):
            return True
        if m.t == 'E' and m.id // 1000 == 33:
            return True
    return False


class GenSource(object):
    def __init__(self, ch, hints=None, max_factor=3, zero_bit_weight=(2, 3)):
        self.ch = ch
        self.hints = hints or {}
        self.max_factor = max_factor
        self.zero_bit_weight = zero_bit_weight

    # -- scalars -----------------------------------------------------------------------
    def uint_raw(self, nbits, allow_missing=True):
        ch = self.ch
        if nbits == 1:
            return ch.int(0, 1)
        top = all_ones(nbits) - 1
        opts = [(6, 'uniform'), (1, 0), (1, 1), (1, 1 << (nbits - 1)), (1, top)]
        if allow_missing:
            opts.append((2, 'missing'))
        if nbits > 2:
            # the all-ones pattern of a narrower width: under 201YYY / 207YYY this is the missing pattern of the
            # element's Table B width, an ordinary value of the widened field
            opts.append((1, 'ones_below'))
        k = ch.weighted(opts)
        if k == 'uniform':
            return ch.int(0, top)
        if k == 'ones_below':
            ds = [d for d in (1, 2, 4, 6, 7, 8, 10) if nbits - d >= 1]
            return all_ones(nbits - ch.choice(ds))
        if k == 'missing':
            return all_ones(nbits)
        return min(k, top)

    def str_raw(self, nbytes, allow_missing=True):
        ch = self.ch
        if nbytes == 0:
            return b''
        opts = [(5, 'ascii'), (2, 'special'), (1, 'latin')]
        if allow_missing:
            opts.append((1, 'missing'))
        k = ch.weighted(opts)
        if k == 'missing':
            return b'\xff' * nbytes
        if k == 'special':
            s = ch.choice(SPECIAL_STRINGS)
            s = (s * (1 + nbytes // len(s)))[:nbytes] if ch.bool(1, 3) else s[:nbytes]
            return s + b' ' * (nbytes - len(s))
        alpha = ASCII if k == 'ascii' else LATIN
        n_real = ch.int(0, nbytes)
        lead = ch.int(0, min(2, nbytes - n_real))
        body = ch.bytes(n_real, alpha)
        s = b' ' * lead + body
        s = s + b' ' * (nbytes - len(s))
        if s == b'\xff' * nbytes:
            s = b' ' * nbytes
        return s

    def one(self, f, allow_missing=True):
        if f.kind == 'str':
            return self.str_raw(f.nbits // 8, allow_missing)
        return self.uint_raw(f.nbits, allow_missing)

    # -- the source interface ----------------------------------------------------------
    def leaf(self, walk, f):
        ch = self.ch
        n = walk.nsub
        if f.kind == 'const':
            return [0] * n
        if f.role == 'bit':
            num, den = self.zero_bit_weight
            b = 0 if ch.bool(num, den) else 1
            return [b] * n
        if f.role == 'factor':
            nd = walk.cur_rep
            if nd is not None and consumes_attributes(nd):
                r = walk.regs
                k = 0 if r.targets is None else len(r.targets) - r.tpos
            elif nd is not None and len(nd.members) == 1 and nd.members[0].id == 31031:
                # a bitmap whose length is data: the epoch's length, or 1..#elements available
                r = walk.regs
                if r.backref:
                    k = len(r.backref)
                else:
                    avail = sum(1 for x in walk.fields[:r.boundary] if x.plain)
                    k = ch.int(1, max(1, min(avail, 8)))
            elif f.nbits == 1:
                k = ch.int(0, 1)
            else:
                k = ch.weighted([(3, 1), (2, 0), (2, 2), (1, self.max_factor)])
            return [k] * n
        if f.role == 'refval':
            mag_bits = f.nbits - 1
            top = min((1 << mag_bits) - 1, 100000)
            mag = ch.weighted([(4, ch.int(0, min(top, 300))), (1, 0), (1, top)])
            sign = -1 if ch.bool() else 1
            return [sign * mag] * n
        if n == 1:
            return [self.one(f)]
        return self.column(f, n)

    def column(self, f, n):
        ch = self.ch
        mode = ch.weighted([(3, 'independent'), (2, 'all_equal'), (1, 'all_missing'), (3, 'near'),
                            (2, 'equal_plus_missing')])
        can_miss = f.kind == 'str' or f.nbits > 1
        if mode == 'all_missing' and not can_miss:
            mode = 'all_equal'
        if mode == 'independent':
            return [self.one(f) for _ in range(n)]
        if mode == 'all_equal':
            v = self.one(f)
            return [v] * n
        if mode == 'all_missing':
            m = b'\xff' * (f.nbits // 8) if f.kind == 'str' else all_ones(f.nbits)
            return [m] * n
        if mode == 'equal_plus_missing' or f.kind == 'str':
            v = self.one(f, allow_missing=False)
            m = b'\xff' * (f.nbits // 8) if f.kind == 'str' else all_ones(f.nbits)
            out = [(m if (can_miss and ch.bool(1, 3)) else v) for _ in range(n)]
            return out
        # near: a base plus small differences, aimed at the small difference widths and at
        # ranges of the form 2^k - 2 / 2^k - 1
        top = all_ones(f.nbits) - 1 if f.nbits > 1 else 1
        k = ch.int(1, min(5, max(1, f.nbits)))
        span = ch.weighted([(2, (1 << k) - 2), (2, (1 << k) - 1), (1, 1 << k), (1, 1)])
        span = max(0, min(span, top))
        base = ch.int(0, top - span)
        if f.nbits > 2 and ch.bool(1, 4):
            # a column that straddles the all-ones pattern of a narrower width (see uint_raw)
            d = ch.choice([d for d in (1, 2, 4, 6, 7, 8, 10) if f.nbits - d >= 1])
            base = max(0, min(all_ones(f.nbits - d) - ch.int(0, span), top - span))
        out = []
        for i in range(n):
            if can_miss and ch.bool(1, 6):
                out.append(all_ones(f.nbits))
            else:
                out.append(base + ch.weighted([(2, ch.int(0, span)), (1, 0), (1, span)]))
        return out


def source_for(ch, features, **kw):
    """the value source for a template with these generator features: a template that lays its marker values out
    statically (a fixed number of them, some outside any replication) needs bitmaps whose bits are all zero"""
    if 'all_bits_zero' in features:
        kw['zero_bit_weight'] = (1, 1)
    return GenSource(ch, **kw)
